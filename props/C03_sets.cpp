// C03 — lifetimes of the elements of static_set<T,N> and flat_set<T, static_vector<T,N>> for copy+move, move-only and
// copy-only element types.  Oracle: see props/C03_shared.cpp (registry invariants + value snapshots around self-ops and
// read-back of fresh assignments; set contents are NOT compared with a reference set — that is C09).
// Configurations with the transparent comparator etl::less<> additionally run every heterogeneous observer (find, contains,
// count, lower_bound, upper_bound, equal_range; const and non-const) with a probe key of another type below / above /
// equal to / between the elements in whatever state the history reached (empty, full, after erase / clear): a comparator
// or predicate must never be invoked on a slot outside [begin, end).  flat_multiset has no lookup / modifier members on
// this tree (constructors, iterators, size only) and is not an owner named by the property: not part of the check.
// Engines: E1 rapidcheck histories + E2 all op pairs (thorough: triples) after a fixed fill prefix for small capacities.
//
// Not part of the check because it does not compile on this tree: move assignment / swap / replace for TMO (the storage
// static_vector<TMO> is not move-assignable, see C03_vectors.cpp), copy operations and range insertion with TMO,
// static_set::equal_range (returns a pair as an iterator), flat_set::insert(sorted_unique, first, last) (declared only).
// Generated calls respect the documented preconditions: a flat_set never receives a new key while its container is full
// (static_vector::emplace requires !full()), containers handed to sorted_unique constructors / replace are sorted+unique.
#include <etl/flat_set.hpp>
#include <etl/set.hpp>
#include <etl/vector.hpp>

#include "C03_shared.cpp"

#include <algorithm>

namespace {

using namespace c03;

template <typename V>
auto snap(V const& v) -> std::vector<int>
{
    std::vector<int> r;
    for (auto it = v.begin(); it != v.end(); ++it) { r.push_back(it->get()); }
    return r;
}
template <typename V>
void touch(V const& v)
{
    for (auto it = v.begin(); it != v.end(); ++it) { (void)it->get(); }
}
inline auto has(std::vector<int> const& v, int x) -> bool { return std::find(v.begin(), v.end(), x) != v.end(); }

struct Even {
    template <typename T>
    auto operator()(T const& x) const -> bool
    {
        return x.get() % 2 == 0;
    }
};

// n distinct ascending keys starting near `from`
inline auto fresh_keys(std::size_t n, int from) -> std::vector<int>
{
    std::vector<int> r;
    for (std::size_t i = 0; i < n; ++i) { r.push_back(from + 3 * static_cast<int>(i)); }
    return r;
}

// Heterogeneous lookup key for the transparent-comparator configurations (Compare = etl::less<>): a type other than the
// element type whose comparison with an element goes through the element's registry-checked accessor, so that a comparator
// invoked on a slot outside [begin, end) (never constructed / already destroyed element) is seen by the registry.
struct Probe {
    int k;
};
template <typename T>
    requires requires(T const& t) { t.get(); }
auto operator<(T const& t, Probe p) -> bool
{
    return t.get() < p.k;
}
template <typename T>
    requires requires(T const& t) { t.get(); }
auto operator<(Probe p, T const& t) -> bool
{
    return p.k < t.get();
}
template <typename C>
inline constexpr bool transparent = requires { typename C::is_transparent; };

// probe keys: below every element, above every element, equal to an element, between two elements / next to one
inline auto probe_key(std::vector<int> const& cur, std::uint32_t how, std::uint32_t pick_raw) -> int
{
    if (cur.empty()) { return static_cast<int>(how % 4) * 3; }
    auto e = cur[pick_raw % cur.size()];
    switch (how % 5) {
    case 0: return cur.front() - 2;
    case 1: return cur.back() + 2;
    case 2: return e;
    case 3: return e + 1;
    default: return e - 1;
    }
}
// every heterogeneous observer of a set, const and non-const; whatever iterator comes back inside [begin,end) is read
template <bool HasEqualRange, typename V>
void hetero_lookups(V& x, Probe p)
{
    V const& cx = x;
    auto rd     = [&](auto it, auto e) {
        if (it != e) { (void)it->get(); }
    };
    rd(x.find(p), x.end());
    rd(cx.find(p), cx.end());
    (void)cx.contains(p);
    (void)cx.count(p);
    rd(x.lower_bound(p), x.end());
    rd(cx.lower_bound(p), cx.end());
    rd(x.upper_bound(p), x.end());
    rd(cx.upper_bound(p), cx.end());
    if constexpr (HasEqualRange) {
        auto r = x.equal_range(p);
        rd(r.first, x.end());
        auto cr = cx.equal_range(p);
        rd(cr.first, cx.end());
    }
}

// ================================================================== static_set
enum Code : std::uint32_t {
    INSERT_RREF, INSERT_CREF, EMPLACE, INSERT_RANGE, ERASE_POS, ERASE_RANGE, ERASE_KEY, CLEAR, OBSERVE, SWAP_MEMBER, SWAP_FREE, SELF_SWAP_MEMBER, SELF_SWAP_FREE,
    COPY_CTOR, COPY_ASSIGN, SELF_COPY_ASSIGN, MOVE_CTOR, MOVE_ASSIGN, SELF_MOVE_ASSIGN, CTOR_RANGE, HLOOKUP,
    NCODES
};
char const* const code_names[] = {"insert(&&)", "insert(const&)", "emplace", "insert(first,last)", "erase(pos)", "erase(first,last)", "erase(key)", "clear", "find/contains/bounds", "swap(member)", "swap(free)",
    "self swap(member)", "self swap(free)", "copy-ctor", "copy-assign", "self copy-assign", "move-ctor+refill source", "move-assign+refill source", "self move-assign", "ctor(first,last)",
    "heterogeneous find/contains/count/bounds"};
static_assert(sizeof(code_names) / sizeof(code_names[0]) == NCODES);

template <typename T, std::size_t N, typename Cmp = etl::less<T>>
struct SS {
    using V                  = etl::static_set<T, N, Cmp>;
    static constexpr bool TR = transparent<Cmp>;
    static constexpr bool CP = std::is_copy_constructible_v<T>;
    static constexpr bool MA = std::is_move_assignable_v<etl::static_vector<T, N>>;

    static void refill(V& x, std::uint32_t raw, int val, Hist& h, char const* who)
    {
        auto want = fresh_keys(std::min<std::size_t>(pick(raw / 4, N), 6), val + 20);
        auto how  = raw % 4;
        if (how == 0 || !MA) {
            x.clear();
            for (auto w : want) { (void)x.insert(T(w)); }
        } else if (how == 1 || !CP) {
            if constexpr (MA) {
                V fresh;
                for (auto w : want) { (void)fresh.insert(T(w)); }
                x = std::move(fresh);
            }
        } else {
            if constexpr (CP) {
                V fresh;
                for (auto w : want) { (void)fresh.insert(T(w)); }
                x = fresh;
            }
        }
        auto got = snap(x);
        if (got != want) { h.fail(std::string(who) + " does not read back a fresh assignment: wrote " + show(want) + " read " + show(got)); }
    }

    static auto run(OpsCase const& k, int stats) -> std::string
    {
        lt::reset();
        Hist h;
        bool hlooked = false, hl_empty = false, hl_full = false;
        {
            V a;
            V b;
            for (auto const& op : k.ops) {
                bool tb   = (op.c & 1U) != 0;
                V& x      = tb ? b : a;
                V& y      = tb ? a : b;
                auto code = op.code % NCODES;
                if constexpr (!CP) {
                    if (code == INSERT_CREF || code == EMPLACE || code == INSERT_RANGE) { code = INSERT_RREF; }
                    if (code == COPY_CTOR || code == COPY_ASSIGN || code == SELF_COPY_ASSIGN || code == CTOR_RANGE) { code = MOVE_CTOR; }
                }
                if constexpr (!MA) {
                    if (code == MOVE_ASSIGN || code == SELF_MOVE_ASSIGN || (code >= SWAP_MEMBER && code <= SELF_SWAP_FREE)) { code = MOVE_CTOR; }
                }
                if constexpr (!TR) {
                    if (code == HLOOKUP) { code = OBSERVE; }
                }
                std::size_t sz = x.size();
                if (sz == 0 && code == ERASE_POS) { code = INSERT_RREF; }
                int key = static_cast<int>((op.c >> 1) % (2 * N + 3)) + 1;
                if (stats > 1) { vf::count((std::string("ss.") + code_names[code]).c_str()); }
                switch (code) {
                case INSERT_RREF: {
                    auto cur = snap(x);
                    (void)x.insert(T(key));
                    auto lb = static_cast<std::size_t>(std::lower_bound(cur.begin(), cur.end(), key) - cur.begin());
                    h.middle |= (sz < N && !has(cur, key) && lb > 0 && lb < sz);
                    break;
                }
                case INSERT_CREF: {
                    if constexpr (CP) {
                        auto cur = snap(x);
                        auto lb  = static_cast<std::size_t>(std::lower_bound(cur.begin(), cur.end(), key) - cur.begin());
                        h.middle |= (sz < N && !has(cur, key) && lb > 0 && lb < sz);
                        if (sz > 0 && (op.b & 32U) != 0) { // the argument aliases an element (valid for std::set)
                            (void)x.insert(*(x.begin() + static_cast<std::ptrdiff_t>(op.a % sz)));
                        } else {
                            T t(key);
                            (void)x.insert(t);
                        }
                    }
                    break;
                }
                case EMPLACE: {
                    if constexpr (CP) {
                        auto cur = snap(x);
                        auto lb  = static_cast<std::size_t>(std::lower_bound(cur.begin(), cur.end(), key) - cur.begin());
                        h.middle |= (sz < N && !has(cur, key) && lb > 0 && lb < sz);
                        (void)x.emplace(key);
                    }
                    break;
                }
                case INSERT_RANGE: {
                    if constexpr (CP) {
                        T src[4]{T(key), T(key + 2), T(key), T(key - 1)};
                        T const* f = src;
                        x.insert(f, f + (op.b % 5));
                        h.poll();
                    }
                    break;
                }
                case ERASE_POS: {
                    auto p = op.a % sz;
                    (void)x.erase(x.begin() + static_cast<std::ptrdiff_t>(p));
                    h.middle |= (p > 0 && p + 1 < sz);
                    break;
                }
                case ERASE_RANGE: {
                    auto f = op.a % (sz + 1);
                    auto l = f + pick(op.b, sz - f);
                    // known-finding exclusion (only if the finding is recorded as open and still reproduces): the pinned
                    // erase(first,last) loop runs past end() exactly when the range is longer than the tail behind it + 1
                    if (vf::ctx().excluded("static_set.erase_range") && (l - f) > (sz - l) + 1) {
                        vf::excluded_known("static_set.erase_range");
                        while ((l - f) > (sz - l) + 1) { --l; }
                    }
                    (void)x.erase(x.begin() + static_cast<std::ptrdiff_t>(f), x.begin() + static_cast<std::ptrdiff_t>(l));
                    h.middle |= (f > 0 && l > f && l < sz);
                    break;
                }
                case ERASE_KEY: {
                    T t(key);
                    (void)x.erase(t);
                    break;
                }
                case CLEAR: x.clear(); break;
                case OBSERVE: {
                    T t(key);
                    V const& cx = x;
                    (void)cx.find(t);
                    (void)x.find(t);
                    (void)cx.contains(t);
                    (void)cx.count(t);
                    (void)cx.lower_bound(t);
                    (void)cx.upper_bound(t);
                    (void)(cx == y);
                    (void)(cx < y);
                    break;
                }
                case HLOOKUP: {
                    // (static_set::equal_range does not compile on this tree: it returns a pair as an iterator)
                    if constexpr (TR) {
                        auto cur = snap(x);
                        for (std::uint32_t how = 0; how < 5; ++how) { hetero_lookups<false>(x, Probe{probe_key(cur, how + op.b, op.a)}); }
                        hlooked = true;
                        hl_empty |= cur.empty();
                        hl_full |= (cur.size() == N);
                    }
                    break;
                }
                case SWAP_MEMBER:
                case SWAP_FREE: {
                    if constexpr (MA) {
                        h.swapped |= (!x.empty() && !y.empty());
                        if (code == SWAP_MEMBER) {
                            x.swap(y);
                        } else {
                            using etl::swap;
                            swap(x, y);
                        }
                    }
                    break;
                }
                case SELF_SWAP_MEMBER:
                case SELF_SWAP_FREE: {
                    if constexpr (MA) {
                        auto before = snap(x);
                        V& alias    = x;
                        if (code == SELF_SWAP_MEMBER) {
                            x.swap(alias);
                        } else {
                            using etl::swap;
                            swap(x, alias);
                        }
                        auto after = snap(x);
                        if (before != after) { h.fail("self-swap changed the value: " + show(before) + " -> " + show(after)); }
                        h.selfop |= !before.empty();
                    }
                    break;
                }
                case COPY_CTOR: {
                    if constexpr (CP) {
                        V c(x);
                        h.poll();
                        touch(c);
                        if (!c.empty()) { (void)c.erase(c.begin()); }
                        (void)c.insert(T(99));
                        if ((op.b & 1U) != 0) { y = std::move(c); }
                        if ((op.b & 2U) != 0) { refill(x, op.b / 4, key, h, "copied-from source"); }
                    }
                    break;
                }
                case COPY_ASSIGN: {
                    if constexpr (CP) {
                        y = x;
                        if ((op.b & 2U) != 0) { refill(x, op.b / 4, key, h, "copied-from source"); }
                    }
                    break;
                }
                case SELF_COPY_ASSIGN: {
                    if constexpr (CP) {
                        auto before = snap(x);
                        V& alias    = x;
                        x           = alias;
                        auto after  = snap(x);
                        if (before != after) { h.fail("self copy-assignment changed the value: " + show(before) + " -> " + show(after)); }
                        h.selfop |= !before.empty();
                    }
                    break;
                }
                case MOVE_CTOR: {
                    h.moved |= sz > 0;
                    V c(std::move(x));
                    h.poll();
                    touch(c);
                    touch(x);
                    refill(x, op.b, key, h, "moved-from source (move construction)");
                    if constexpr (MA) {
                        if ((op.c & 64U) != 0) { y = std::move(c); }
                    }
                    break;
                }
                case MOVE_ASSIGN: {
                    if constexpr (MA) {
                        h.moved |= sz > 0;
                        y = std::move(x);
                        touch(x);
                        refill(x, op.b, key, h, "moved-from source (move assignment)");
                    }
                    break;
                }
                case SELF_MOVE_ASSIGN: {
                    if constexpr (MA) { // value unspecified afterwards: validity only
                        V& alias = x;
                        x        = std::move(alias);
                        touch(x);
                        h.selfop |= sz > 0;
                        if ((op.b & 1U) != 0) { refill(x, op.b / 2, key, h, "self-move-assigned object"); }
                    }
                    break;
                }
                case CTOR_RANGE: {
                    if constexpr (CP) {
                        T src[4]{T(key), T(key + 2), T(key), T(key - 1)};
                        T const* f = src;
                        V c(f, f + std::min<std::size_t>(op.b % 5, N));
                        h.poll();
                        touch(c);
                        y = std::move(c);
                    }
                    break;
                }
                default: break;
                }
                touch(a);
                touch(b);
                if (!h.step()) {
                    h.err = std::string("after ") + code_names[code] + ": " + h.err;
                    break;
                }
            }
        }
        if (h.err.empty()) { h.err = lt::check_empty(); }
        if (stats > 1 && TR) {
            vf::label("static_set<less<>>.heterogeneous lookup", hlooked);
            vf::label("static_set<less<>>.heterogeneous lookup on an empty set", hl_empty);
            vf::label("static_set<less<>>.heterogeneous lookup on a full set", hl_full);
        }
        h.labels("static_set", stats, k, MA ? (N >= 3 ? "mvsf" : "vsf") : (N >= 3 ? "mv" : "v"));
        return h.err;
    }
};

// ================================================================== flat_set<T, static_vector<T,N>>
enum FCode : std::uint32_t {
    F_EMPLACE, F_INSERT_RREF, F_INSERT_CREF, F_INSERT_HINT_RREF, F_INSERT_HINT_CREF, F_EMPLACE_HINT, F_INSERT_RANGE, F_ERASE_IT, F_ERASE_CIT, F_ERASE_RANGE, F_ERASE_KEY, F_ERASE_IF, F_CLEAR, F_OBSERVE,
    F_SWAP_MEMBER, F_SWAP_FREE, F_SELF_SWAP_MEMBER, F_SELF_SWAP_FREE, F_COPY_CTOR, F_COPY_ASSIGN, F_SELF_COPY_ASSIGN, F_MOVE_CTOR, F_MOVE_ASSIGN, F_SELF_MOVE_ASSIGN, F_EXTRACT_REPLACE, F_EXTRACT_DROP,
    F_REPLACE_FRESH, F_CTOR_CONT, F_CTOR_SORTED_CONT, F_CTOR_RANGE, F_CTOR_SORTED_RANGE, F_HLOOKUP,
    F_NCODES
};
char const* const fcode_names[] = {"emplace", "insert(&&)", "insert(const&)", "insert(hint,&&)", "insert(hint,const&)", "emplace_hint", "insert(first,last)", "erase(iterator)", "erase(const_iterator)", "erase(first,last)",
    "erase(key)", "erase_if(c,even)", "clear", "find/contains/bounds", "swap(member)", "swap(free)", "self swap(member)", "self swap(free)", "copy-ctor", "copy-assign", "self copy-assign", "move-ctor+refill source",
    "move-assign+refill source", "self move-assign", "extract+replace back", "extract+refill", "replace(fresh container)", "ctor(container const&)", "ctor(sorted_unique,container)", "ctor(first,last)",
    "ctor(sorted_unique,first,last)", "heterogeneous find/contains/count/bounds/equal_range"};
static_assert(sizeof(fcode_names) / sizeof(fcode_names[0]) == F_NCODES);

template <typename T, std::size_t N, typename Cmp = etl::less<T>>
struct FS {
    using C                  = etl::static_vector<T, N>;
    using V                  = etl::flat_set<T, C, Cmp>;
    static constexpr bool TR = transparent<Cmp>;
    static constexpr bool CP = std::is_copy_constructible_v<T>;
    static constexpr bool MA = std::is_move_assignable_v<C>;

    static auto make_cont(std::vector<int> const& keys) -> C
    {
        C c;
        for (auto w : keys) { c.emplace_back(w); }
        return c;
    }

    static void refill(V& x, std::uint32_t raw, int val, Hist& h, char const* who)
    {
        auto want = fresh_keys(std::min<std::size_t>(pick(raw / 4, N), 6), val + 20);
        auto how  = raw % 4;
        if (how == 0 || !MA) {
            x.clear();
            for (auto w : want) { (void)x.emplace(w); }
        } else if (how == 1) {
            if constexpr (MA) { x.replace(make_cont(want)); }
        } else if (how == 2 || !CP) {
            if constexpr (MA) { x = V(etl::sorted_unique, make_cont(want)); }
        } else {
            if constexpr (CP) {
                V fresh(etl::sorted_unique, make_cont(want));
                x = fresh;
            }
        }
        auto got = snap(x);
        if (got != want) { h.fail(std::string(who) + " does not read back a fresh assignment: wrote " + show(want) + " read " + show(got)); }
    }

    static auto run(OpsCase const& k, int stats) -> std::string
    {
        lt::reset();
        Hist h;
        bool hlooked = false, hl_empty = false, hl_full = false;
        {
            V a;
            V b;
            for (auto const& op : k.ops) {
                bool tb   = (op.c & 1U) != 0;
                V& x      = tb ? b : a;
                V& y      = tb ? a : b;
                auto code = op.code % F_NCODES;
                if constexpr (!CP) {
                    if (code == F_INSERT_CREF) { code = F_INSERT_RREF; }
                    if (code == F_INSERT_HINT_CREF) { code = F_INSERT_HINT_RREF; }
                    if (code == F_INSERT_RANGE) { code = F_EMPLACE; }
                    if (code == F_COPY_CTOR || code == F_COPY_ASSIGN || code == F_SELF_COPY_ASSIGN || code == F_CTOR_CONT || code == F_CTOR_RANGE || code == F_CTOR_SORTED_RANGE) { code = F_MOVE_CTOR; }
                }
                if constexpr (!MA) {
                    if (code == F_MOVE_ASSIGN || code == F_SELF_MOVE_ASSIGN || (code >= F_SWAP_MEMBER && code <= F_SELF_SWAP_FREE) || code == F_EXTRACT_REPLACE || code == F_REPLACE_FRESH) { code = F_EXTRACT_DROP; }
                }
                if constexpr (!TR) {
                    if (code == F_HLOOKUP) { code = F_OBSERVE; }
                }
                auto cur       = snap(x);
                std::size_t sz = x.size();
                if (sz == 0 && (code == F_ERASE_IT || code == F_ERASE_CIT)) { code = F_EMPLACE; }
                int key = static_cast<int>((op.c >> 1) % (2 * N + 3)) + 1;
                // precondition of the underlying static_vector::emplace: a NEW key needs room
                if (sz == N && code <= F_INSERT_RANGE && !has(cur, key)) {
                    if (sz == 0) {
                        code = F_OBSERVE;
                    } else {
                        key = cur[op.a % sz];
                    }
                }
                if (stats > 1) { vf::count((std::string("fs.") + fcode_names[code]).c_str()); }
                auto hint = [&] { return x.cbegin() + static_cast<std::ptrdiff_t>(op.a % (sz + 1)); };
                if (code <= F_EMPLACE_HINT) {
                    auto lb = static_cast<std::size_t>(std::lower_bound(cur.begin(), cur.end(), key) - cur.begin());
                    h.middle |= (!has(cur, key) && lb > 0 && lb < sz);
                }
                switch (code) {
                case F_EMPLACE: (void)x.emplace(key); break;
                case F_INSERT_RREF: (void)x.insert(T(key)); break;
                case F_INSERT_CREF: {
                    if constexpr (CP) {
                        T t(key);
                        (void)x.insert(t);
                    }
                    break;
                }
                case F_INSERT_HINT_RREF: (void)x.insert(hint(), T(key)); break;
                case F_INSERT_HINT_CREF: {
                    if constexpr (CP) {
                        T t(key);
                        (void)x.insert(hint(), t);
                    }
                    break;
                }
                case F_EMPLACE_HINT: (void)x.emplace_hint(hint(), key); break;
                case F_INSERT_RANGE: {
                    if constexpr (CP) {
                        // at most `room` new keys; duplicates of present keys and of each other are free
                        std::vector<int> ks;
                        std::size_t room = N - sz;
                        int cand[4]      = {key, key + 2, key, key - 1};
                        auto all         = cur;
                        for (std::size_t i = 0; i < op.b % 5 && i < 4; ++i) {
                            if (!has(all, cand[i])) {
                                if (room == 0) { continue; }
                                --room;
                                all.push_back(cand[i]);
                            }
                            ks.push_back(cand[i]);
                        }
                        etl::static_vector<T, 4> src;
                        for (auto w : ks) { src.emplace_back(w); }
                        etl::static_vector<T, 4> const& cs = src;
                        x.insert(cs.begin(), cs.end());
                        h.poll();
                    }
                    break;
                }
                case F_ERASE_IT: {
                    auto p = op.a % sz;
                    (void)x.erase(x.begin() + static_cast<std::ptrdiff_t>(p));
                    h.middle |= (p > 0 && p + 1 < sz);
                    break;
                }
                case F_ERASE_CIT: {
                    auto p = op.a % sz;
                    (void)x.erase(x.cbegin() + static_cast<std::ptrdiff_t>(p));
                    h.middle |= (p > 0 && p + 1 < sz);
                    break;
                }
                case F_ERASE_RANGE: {
                    auto f = op.a % (sz + 1);
                    auto l = f + pick(op.b, sz - f);
                    (void)x.erase(x.cbegin() + static_cast<std::ptrdiff_t>(f), x.cbegin() + static_cast<std::ptrdiff_t>(l));
                    h.middle |= (f > 0 && l > f && l < sz);
                    break;
                }
                case F_ERASE_KEY: {
                    T t(key);
                    (void)x.erase(t);
                    break;
                }
                case F_ERASE_IF: (void)etl::erase_if(x, Even{}); break;
                case F_CLEAR: x.clear(); break;
                case F_OBSERVE: {
                    T t(key);
                    V const& cx = x;
                    (void)cx.find(t);
                    (void)x.find(t);
                    (void)cx.contains(t);
                    (void)cx.count(t);
                    (void)cx.lower_bound(t);
                    (void)cx.upper_bound(t);
                    (void)cx.equal_range(t);
                    (void)(cx == y);
                    (void)(cx < y);
                    break;
                }
                case F_HLOOKUP: {
                    if constexpr (TR) {
                        for (std::uint32_t how = 0; how < 5; ++how) { hetero_lookups<true>(x, Probe{probe_key(cur, how + op.b, op.a)}); }
                        hlooked = true;
                        hl_empty |= cur.empty();
                        hl_full |= (cur.size() == N);
                    }
                    break;
                }
                case F_SWAP_MEMBER:
                case F_SWAP_FREE: {
                    if constexpr (MA) {
                        h.swapped |= (!x.empty() && !y.empty());
                        if (code == F_SWAP_MEMBER) {
                            x.swap(y);
                        } else {
                            swap(x, y); // hidden friend
                        }
                    }
                    break;
                }
                case F_SELF_SWAP_MEMBER:
                case F_SELF_SWAP_FREE: {
                    if constexpr (MA) {
                        V& alias = x;
                        if (code == F_SELF_SWAP_MEMBER) {
                            x.swap(alias);
                        } else {
                            swap(x, alias);
                        }
                        auto after = snap(x);
                        if (cur != after) { h.fail("self-swap changed the value: " + show(cur) + " -> " + show(after)); }
                        h.selfop |= !cur.empty();
                    }
                    break;
                }
                case F_COPY_CTOR: {
                    if constexpr (CP) {
                        V c(x);
                        h.poll();
                        touch(c);
                        if (!c.empty()) { (void)c.erase(c.begin()); }
                        if (c.size() < N) { (void)c.emplace(99); }
                        if ((op.b & 1U) != 0) { y = std::move(c); }
                        if ((op.b & 2U) != 0) { refill(x, op.b / 4, key, h, "copied-from source"); }
                    }
                    break;
                }
                case F_COPY_ASSIGN: {
                    if constexpr (CP) {
                        y = x;
                        if ((op.b & 2U) != 0) { refill(x, op.b / 4, key, h, "copied-from source"); }
                    }
                    break;
                }
                case F_SELF_COPY_ASSIGN: {
                    if constexpr (CP) {
                        V& alias   = x;
                        x          = alias;
                        auto after = snap(x);
                        if (cur != after) { h.fail("self copy-assignment changed the value: " + show(cur) + " -> " + show(after)); }
                        h.selfop |= !cur.empty();
                    }
                    break;
                }
                case F_MOVE_CTOR: {
                    h.moved |= sz > 0;
                    V c(std::move(x));
                    h.poll();
                    touch(c);
                    touch(x);
                    refill(x, op.b, key, h, "moved-from source (move construction)");
                    if constexpr (MA) {
                        if ((op.c & 64U) != 0) { y = std::move(c); }
                    }
                    break;
                }
                case F_MOVE_ASSIGN: {
                    if constexpr (MA) {
                        h.moved |= sz > 0;
                        y = std::move(x);
                        touch(x);
                        refill(x, op.b, key, h, "moved-from source (move assignment)");
                    }
                    break;
                }
                case F_SELF_MOVE_ASSIGN: {
                    if constexpr (MA) { // value unspecified afterwards: validity only
                        V& alias = x;
                        x        = std::move(alias);
                        touch(x);
                        h.selfop |= sz > 0;
                        if ((op.b & 1U) != 0) { refill(x, op.b / 2, key, h, "self-move-assigned object"); }
                    }
                    break;
                }
                case F_EXTRACT_REPLACE: {
                    if constexpr (MA) {
                        h.moved |= sz > 0;
                        C c = std::move(x).extract();
                        h.poll();
                        touch(c);
                        touch(x);
                        // whatever extract() handed out is (by its contract) sorted+unique: it may go back in
                        x.replace(std::move(c));
                        touch(c);
                    }
                    break;
                }
                case F_EXTRACT_DROP: {
                    h.moved |= sz > 0;
                    {
                        C c = std::move(x).extract();
                        h.poll();
                        touch(c);
                        touch(x);
                    }
                    refill(x, op.b, key, h, "extracted-from set");
                    break;
                }
                case F_REPLACE_FRESH: {
                    if constexpr (MA) {
                        auto want = fresh_keys(std::min<std::size_t>(pick(op.b, N), 6), key);
                        C c       = make_cont(want);
                        x.replace(std::move(c));
                        touch(c);
                        auto got = snap(x);
                        if (got != want) { h.fail("replace(container) does not read back: wrote " + show(want) + " read " + show(got)); }
                    }
                    break;
                }
                case F_CTOR_CONT: {
                    if constexpr (CP) {
                        std::vector<int> ks;
                        int cand[4] = {key, key + 2, key, key - 1};
                        for (std::size_t i = 0; i < op.b % 5 && i < 4 && i < N; ++i) { ks.push_back(cand[i]); }
                        C src = make_cont(ks);
                        V c(src);
                        h.poll();
                        touch(c);
                        y = std::move(c);
                    }
                    break;
                }
                case F_CTOR_SORTED_CONT: {
                    V c(etl::sorted_unique, make_cont(fresh_keys(std::min<std::size_t>(pick(op.b, N), 6), key)));
                    h.poll();
                    touch(c);
                    if constexpr (MA) { y = std::move(c); }
                    break;
                }
                case F_CTOR_RANGE:
                case F_CTOR_SORTED_RANGE: {
                    if constexpr (CP) {
                        C src       = make_cont(fresh_keys(std::min<std::size_t>(pick(op.b, N), 6), key));
                        C const& cs = src;
                        if (code == F_CTOR_RANGE) {
                            V c(cs.begin(), cs.end());
                            h.poll();
                            touch(c);
                            y = std::move(c);
                        } else {
                            V c(etl::sorted_unique, cs.begin(), cs.end());
                            h.poll();
                            touch(c);
                            y = std::move(c);
                        }
                    }
                    break;
                }
                default: break;
                }
                touch(a);
                touch(b);
                if (!h.step()) {
                    h.err = std::string("after ") + fcode_names[code] + ": " + h.err;
                    break;
                }
            }
        }
        if (h.err.empty()) { h.err = lt::check_empty(); }
        if (stats > 1 && TR) {
            vf::label("flat_set<less<>>.heterogeneous lookup", hlooked);
            vf::label("flat_set<less<>>.heterogeneous lookup on an empty set", hl_empty);
            vf::label("flat_set<less<>>.heterogeneous lookup on a full set", hl_full);
        }
        h.labels("flat_set", stats, k, MA ? (N >= 3 ? "mvsf" : "vsf") : (N >= 3 ? "mv" : "v"));
        return h.err;
    }
};

using TCM = lt::TCM;
using TMO = lt::TMO;
using TCO = lt::TCO;
#define SSC(T, N) Config{"static_set<" #T "," #N ">", &SS<T, N>::run, NCODES, code_names, (N) <= 2}
#define SSCT(T, N) Config{"static_set<" #T "," #N ",less<>>", &SS<T, N, etl::less<>>::run, NCODES, code_names, (N) <= 2}
#define FSCT(T, N) Config{"flat_set<" #T ",static_vector<" #T "," #N ">,less<>>", &FS<T, N, etl::less<>>::run, F_NCODES, fcode_names, (N) <= 2}
#define FSC(T, N) Config{"flat_set<" #T ",static_vector<" #T "," #N ">>", &FS<T, N>::run, F_NCODES, fcode_names, (N) <= 2}

// The TU is built twice (registry flags -DC03_PART=1 / =2) so that the two halves compile in parallel.
#ifndef C03_PART
#define C03_PART 0
#endif
void init_configs()
{
    configs() = {
#if C03_PART == 0 || C03_PART == 1
        SSC(TCM, 1), SSC(TCM, 2), SSC(TCM, 4), SSC(TCM, 8), SSC(TMO, 1), SSC(TMO, 2), SSC(TMO, 4), SSC(TMO, 8), SSC(TCO, 2), SSC(TCO, 4), SSC(TCO, 8),
        // element shapes of C03_shared.cpp: NC copy may throw, NM move may throw, AO overloaded unary operator&
        SSC(NC<0>, 4), SSC(NM<0>, 4), SSC(AO<0>, 4),
        // transparent comparator etl::less<>: heterogeneous lookups with a key type other than the element (op HLOOKUP)
        SSCT(TCM, 1), SSCT(TCM, 2), SSCT(TCM, 4), SSCT(TMO, 4),
#endif
#if C03_PART == 0 || C03_PART == 2
        FSC(TCM, 0), FSC(TCM, 1), FSC(TCM, 2), FSC(TCM, 4), FSC(TCM, 8), FSC(TMO, 1), FSC(TMO, 2), FSC(TMO, 4), FSC(TMO, 8), FSC(TCO, 2), FSC(TCO, 4), FSC(TCO, 8),
        // (flat_set<AO,...> is not part of the check: every insertion goes through static_vector::emplace(pos, ...), which forms
        // its range with `&a, &a + 1` and does not compile for an element type with an overloaded unary operator&)
        FSC(NC<0>, 4), FSC(NM<0>, 4),
        // transparent comparator etl::less<>: heterogeneous lookups with a key type other than the element (op F_HLOOKUP)
        FSCT(TCM, 0), FSCT(TCM, 1), FSCT(TCM, 2), FSCT(TCM, 4), FSCT(TMO, 4),
#endif
    };
}

} // namespace

void vf_run(vf::Ctx& c)
{
    init_configs();
    // fill prefix: keys 2,4,6 into A and 3,5 into B (code 0 is an insertion for both owners; full owners keep what fits)
    c03::run_pairs(c, {RawOp{0, 0, 0, 2}, RawOp{0, 0, 0, 6}, RawOp{0, 0, 0, 10}, RawOp{0, 0, 0, 5}, RawOp{0, 0, 0, 9}});
    c03::run_histories(c, 2400, 18000, 30);
}

std::string vf_replay(std::string const&, std::string const& cs)
{
    init_configs();
    return c03::replay_history(cs);
}
