// C14 — bit and integer utilities equal their mathematical definition.
//
// Engine E2 (complete enumeration of the 8- and 16-bit domains, boundary grids for 32/64 bit) + seeded random pairs
// (vf::Rng) for 32/64 bit.  Oracles: libstdc++ <bit>, std::midpoint/gcd/lcm, std::cmp_*, std::in_range, exact __int128
// arithmetic (add_sat, div_sat, saturate_cast, idiv, ipow, ilog2, abs, and a second opinion for everything else),
// byte reversal for byteswap, htons/htonl for the net helpers.
//
// One source, three kinds of harness binary (-DC14_PART=):
//   1  narrow : every 8-bit value / pair, every 16-bit value, 2^16 x boundary grid, all rotation counts [-130,130]
//   2  wide   : 32/64-bit boundary values (single bits, all-ones-below-bit, +-1 neighbours, limits) x themselves,
//               the template-index forms (set/reset/flip/test_bit<Pos>, ipow<Base>), constant-evaluated popcount
//   5  pairs  : the 64 ordered type pairs for cmp_*, in_range, saturate_cast, mixed-type gcd/lcm
//   3  sweep  : seeded random pairs for 32/64 bit (built "fast": -O2 -fsanitize=undefined, no ASan)
//   4  types  : the builtin types that are NOT one of the eight fixed-width aliases on this platform - `unsigned long
//               long`, `long long` (same width as uint64_t/int64_t = unsigned long/long, but distinct types: code that
//               dispatches on is_same sees them differently), `char`, `char8_t`, `char16_t`, `char32_t`, `wchar_t`, and
//               `bool` for byteswap - for every function of the property that accepts them.  (signed/unsigned char,
//               short, int, long ARE i8..u64 here and are covered by parts 1-3.)
// Every argument is read back from a volatile before the call, so the call is never a constant expression and the
// run-time branch of `if (not is_constant_evaluated())` dispatch is the one executed.
//
// Domain = the documented one: gcd/lcm with |m|, |n| and the result representable in the common type; abs(x), x != min;
// ipow with exponent >= 0 and representable result (exponent additionally <= 255 for the wide types: the function is a
// linear loop); ilog2(x > 0); bit_ceil with representable result; bit positions < digits; div_sat / idiv with y != 0
// (idiv also not min / -1).  UBSan (-fno-sanitize-recover) makes "no result depends on overflow" executable.
#include <etl/bit.hpp>
#include <etl/cmath.hpp>
#include <etl/cstdlib.hpp>
#include <etl/numeric.hpp>
#include <etl/utility.hpp>

#include <etl/experimental/net/byte_order.hpp>

#include <arpa/inet.h>

#include <array>
#include <bit>
#include <cinttypes>
#include <limits>
#include <numeric>
#include <type_traits>
#include <utility>

#include "verif.hpp"

#ifndef C14_PART
    #define C14_PART 0
#endif

namespace {

using i8   = std::int8_t;
using u8   = std::uint8_t;
using i16  = std::int16_t;
using u16  = std::uint16_t;
using i32  = std::int32_t;
using u32  = std::uint32_t;
using i64  = std::int64_t;
using u64  = std::uint64_t;
using i128 = __int128;
using u128 = unsigned __int128;
using ull  = unsigned long long; // distinct from u64 (= unsigned long) on LP64
using ll   = long long;          // distinct from i64 (= long) on LP64

template <typename T>
constexpr auto tname() -> char const*
{
    if constexpr (std::is_same_v<T, i8>) { return "i8"; }
    if constexpr (std::is_same_v<T, u8>) { return "u8"; }
    if constexpr (std::is_same_v<T, i16>) { return "i16"; }
    if constexpr (std::is_same_v<T, u16>) { return "u16"; }
    if constexpr (std::is_same_v<T, i32>) { return "i32"; }
    if constexpr (std::is_same_v<T, u32>) { return "u32"; }
    if constexpr (std::is_same_v<T, i64>) { return "i64"; }
    if constexpr (std::is_same_v<T, u64>) { return "u64"; }
    if constexpr (std::is_same_v<T, char>) { return "char"; }
    if constexpr (std::is_same_v<T, ull> && !std::is_same_v<ull, u64>) { return "ull"; }
    if constexpr (std::is_same_v<T, ll> && !std::is_same_v<ll, i64>) { return "ll"; }
    if constexpr (std::is_same_v<T, char8_t>) { return "c8"; }
    if constexpr (std::is_same_v<T, char16_t>) { return "c16"; }
    if constexpr (std::is_same_v<T, char32_t>) { return "c32"; }
    if constexpr (std::is_same_v<T, wchar_t>) { return "wc"; }
    if constexpr (std::is_same_v<T, bool>) { return "bool"; }
    return "?";
}

// ------------------------------------------------------------------------------------------------ case
struct Case {
    char const* fn;
    char const* ty; // "u8" or "i8,u16"
    u64 a, b;       // two's complement bits of the arguments (b: second value, rotation count or bit position)
    bool sa, sb;    // print as signed
};
auto show_case(Case const& k) -> std::string
{
    char b[200];
    std::string s = std::string(k.fn) + " " + k.ty + " ";
    if (k.sa) {
        std::snprintf(b, sizeof b, "%" PRId64, static_cast<i64>(k.a));
    } else {
        std::snprintf(b, sizeof b, "%" PRIu64, k.a);
    }
    s += b;
    if (k.sb) {
        std::snprintf(b, sizeof b, " %" PRId64, static_cast<i64>(k.b));
    } else {
        std::snprintf(b, sizeof b, " %" PRIu64, k.b);
    }
    return s + b;
}

auto s128(i128 v) -> std::string
{
    if (v == 0) { return "0"; }
    bool neg = v < 0;
    std::string s;
    u128 u = neg ? static_cast<u128>(-(v + 1)) + 1 : static_cast<u128>(v);
    while (u != 0) {
        s.insert(s.begin(), static_cast<char>('0' + static_cast<int>(u % 10)));
        u /= 10;
    }
    return neg ? "-" + s : s;
}
template <typename T>
auto str(T v) -> std::string
{
    if constexpr (std::is_same_v<T, bool>) {
        return v ? "true" : "false";
    } else {
        return s128(static_cast<i128>(v));
    }
}

// ------------------------------------------------------------------------------------------------ functions
enum Fn {
    // unary
    F_POPCOUNT, F_COUNTL_ZERO, F_COUNTL_ONE, F_COUNTR_ZERO, F_COUNTR_ONE, F_BIT_WIDTH, F_BIT_CEIL, F_BIT_FLOOR, F_HAS_SINGLE_BIT,
    F_BYTESWAP, F_ABS, F_ILOG2, F_HTON,
    // (value, count)
    F_ROTL, F_ROTR,
    // (word, position)
    F_SET_BIT, F_SET_BIT_VALUE, F_RESET_BIT, F_FLIP_BIT, F_TEST_BIT,
    // (a, b) of one type
    F_ADD_SAT, F_DIV_SAT, F_MIDPOINT, F_GCD, F_LCM, F_IDIV, F_IPOW,
    // (a of T, b of U)
    F_CMP, F_IN_RANGE, F_SATURATE_CAST, F_GCD_MIXED, F_LCM_MIXED,
    // templated position / base forms
    F_BIT_TEMPLATE, F_IPOW_TEMPLATE,
    // popcount evaluated in a constant expression (takes the portable fallback instead of the builtin)
    F_POPCOUNT_CONSTEXPR,
    // every function evaluated in a constant initialiser (tables below), compared with the run-time result and std
    F_CONSTANT_EVALUATED,
    F_COUNT
};
char const* const FN[F_COUNT] = {"popcount", "countl_zero", "countl_one", "countr_zero", "countr_one", "bit_width", "bit_ceil", "bit_floor", "has_single_bit", "byteswap", "abs", "ilog2", "hton_ntoh", "rotl", "rotr", "set_bit",
    "set_bit_value", "reset_bit", "flip_bit", "test_bit", "add_sat", "div_sat", "midpoint", "gcd", "lcm", "idiv", "ipow", "cmp", "in_range", "saturate_cast", "gcd_mixed", "lcm_mixed", "bit_template", "ipow_template", "popcount_constexpr", "constant_evaluated"};
constexpr Fn UNARY_FIRST = F_POPCOUNT, UNARY_LAST = F_HTON;
constexpr Fn BINARY_FIRST = F_ADD_SAT, BINARY_LAST = F_IPOW;

enum Res { SKIP, OK, FAIL };
std::string g_detail;

// counters (flushed at the end; vf::eval / vf::label cost a map lookup per call)
std::uint64_t g_evals[F_COUNT];
std::uint64_t g_nt;
std::uint64_t g_excluded;
enum Lab { L_LIMIT, L_SIGNMIX, L_ZERO, L_COUNT_OUT, L_IN_DOMAIN, L_NLAB };
char const* const LABN[L_NLAB] = {"args.contain_limit", "args.sign_mix", "args.contain_zero", "rot.count_outside_1_to_digits-1", "call.in_domain"};
std::uint64_t g_lab[L_NLAB][2];
void lab(Lab l, bool hit)
{
    g_lab[l][0] += hit ? 1 : 0;
    g_lab[l][1] += 1;
}
void flush_counters()
{
    for (int f = 0; f < F_COUNT; ++f) {
        if (g_evals[f] != 0) { vf::eval(FN[f], g_evals[f]); }
        g_evals[f] = 0;
    }
    for (int l = 0; l < L_NLAB; ++l) {
        if (g_lab[l][1] != 0) {
            vf::label(LABN[l], g_lab[l][0], g_lab[l][1]);
        }
        g_lab[l][0] = g_lab[l][1] = 0;
    }
    vf::nontrivial_count(g_nt);
    g_nt = 0;
    if (g_excluded != 0) { vf::excluded_known("numeric.gcd_lcm.negative_with_unsigned_common_type", g_excluded); }
    g_excluded = 0;
}

// ------------------------------------------------------------------------------------------------ reference definitions
template <typename T>
constexpr int bits_of = static_cast<int>(sizeof(T) * 8);
template <typename T>
constexpr auto lo() -> i128 { return static_cast<i128>(std::numeric_limits<T>::min()); }
template <typename T>
constexpr auto hi() -> i128 { return static_cast<i128>(std::numeric_limits<T>::max()); }
template <typename T>
constexpr auto fits(i128 v) -> bool { return v >= lo<T>() && v <= hi<T>(); }
template <typename T>
constexpr auto clampT(i128 v) -> T { return v < lo<T>() ? std::numeric_limits<T>::min() : v > hi<T>() ? std::numeric_limits<T>::max() : static_cast<T>(v); }
constexpr auto abs128(i128 v) -> i128 { return v < 0 ? -v : v; }
constexpr auto gcd128(i128 a, i128 b) -> i128
{
    a = abs128(a);
    b = abs128(b);
    while (b != 0) {
        i128 t = a % b;
        a      = b;
        b      = t;
    }
    return a;
}
// lcm(|a|, |b|) if it is representable in CT (computed without overflowing the 128-bit oracle)
template <typename CT>
constexpr auto lcm_in(i128 a, i128 b, i128& out) -> bool
{
    i128 const g = gcd128(a, b);
    if (g == 0) {
        out = 0;
        return true;
    }
    i128 const q  = abs128(a) / g;
    i128 const bb = abs128(b);
    if (bb != 0 && q > hi<CT>() / bb) { return false; }
    out = q * bb;
    return fits<CT>(out);
}
template <typename U>
constexpr auto ubits(U x) -> u64 { return static_cast<u64>(static_cast<std::make_unsigned_t<U>>(x)); } // value bits, zero extended
constexpr auto naive_popcount(u64 x) -> int
{
    int c = 0;
    for (int i = 0; i < 64; ++i) { c += static_cast<int>((x >> i) & 1U); }
    return c;
}

// ------------------------------------------------------------------------------------------------ one call, one type
// b carries: nothing (unary), the second operand (binary), the rotation count as a signed number, or the bit position
template <typename T>
auto check(Fn fn, T a, u64 braw) -> Res
{
    constexpr int N         = bits_of<T>;
    constexpr bool is_u     = std::is_unsigned_v<T>;
    // standard integer type: libstdc++'s counterpart accepts it (std oracle used); otherwise only the 128-bit oracle
    constexpr bool std_int  = std::is_same_v<T, signed char> || std::is_same_v<T, short> || std::is_same_v<T, int> || std::is_same_v<T, long> || std::is_same_v<T, long long> || std::is_same_v<T, unsigned char>
                          || std::is_same_v<T, unsigned short> || std::is_same_v<T, unsigned> || std::is_same_v<T, unsigned long> || std::is_same_v<T, unsigned long long>;
    constexpr bool bit_ok   = requires(T v) { etl::popcount(v); }; // the <bit> family shares one concept
    using UT                = std::make_unsigned_t<T>;
    T const b               = static_cast<T>(static_cast<UT>(braw));
    i128 const A            = static_cast<i128>(a);
    i128 const B            = static_cast<i128>(b);
    constexpr u64 mask      = N == 64 ? ~u64{0} : ((u64{1} << (N % 64)) - 1);
    u64 const ua            = ubits(a);
    auto fail = [&](std::string const& call, std::string const& got, std::string const& want) {
        g_detail = std::string("etl::") + call + " = " + got + ", expected " + want;
        return FAIL;
    };
    auto call1 = [&] { return std::string(FN[fn]) + "(" + tname<T>() + " " + str(a) + ")"; };
    auto call2 = [&] { return std::string(FN[fn]) + "(" + tname<T>() + " " + str(a) + ", " + str(b) + ")"; };

    switch (fn) {
    // ------------------------------------------------------------ <bit>, unsigned only
    case F_POPCOUNT:
        if constexpr (is_u && bit_ok) {
            int const r = etl::popcount(a);
            int const x = std::popcount(a);
            if (r != x || r != naive_popcount(ua)) { return fail(call1(), str(r), str(x)); }
            return OK;
        }
        return SKIP;
    case F_COUNTL_ZERO:
        if constexpr (is_u && bit_ok) {
            int const r = etl::countl_zero(a);
            int x       = 0;
            while (x < N && ((ua >> (N - 1 - x)) & 1U) == 0) { ++x; }
            if (r != x || r != std::countl_zero(a)) { return fail(call1(), str(r), str(x)); }
            return OK;
        }
        return SKIP;
    case F_COUNTL_ONE:
        if constexpr (is_u && bit_ok) {
            int const r = etl::countl_one(a);
            int x       = 0;
            while (x < N && ((ua >> (N - 1 - x)) & 1U) == 1) { ++x; }
            if (r != x || r != std::countl_one(a)) { return fail(call1(), str(r), str(x)); }
            return OK;
        }
        return SKIP;
    case F_COUNTR_ZERO:
        if constexpr (is_u && bit_ok) {
            int const r = etl::countr_zero(a);
            int x       = 0;
            while (x < N && ((ua >> x) & 1U) == 0) { ++x; }
            if (r != x || r != std::countr_zero(a)) { return fail(call1(), str(r), str(x)); }
            return OK;
        }
        return SKIP;
    case F_COUNTR_ONE:
        if constexpr (is_u && bit_ok) {
            int const r = etl::countr_one(a);
            int x       = 0;
            while (x < N && ((ua >> x) & 1U) == 1) { ++x; }
            if (r != x || r != std::countr_one(a)) { return fail(call1(), str(r), str(x)); }
            return OK;
        }
        return SKIP;
    case F_BIT_WIDTH:
        if constexpr (is_u && bit_ok) {
            auto const r = etl::bit_width(a);
            int x        = 0;
            while (x < N && (ua >> x) != 0) { ++x; }
            if (static_cast<int>(r) != x || static_cast<int>(r) != static_cast<int>(std::bit_width(a))) { return fail(call1(), str(r), str(x)); }
            return OK;
        }
        return SKIP;
    case F_BIT_CEIL:
        if constexpr (is_u && bit_ok) {
            if (ua > (u64{1} << (N - 1))) { return SKIP; } // result not representable: undefined
            T const r = etl::bit_ceil(a);
            u64 x     = 1;
            while (x < ua) { x <<= 1; }
            if (ubits(r) != x || r != std::bit_ceil(a)) { return fail(call1(), str(r), str(x)); }
            return OK;
        }
        return SKIP;
    case F_BIT_FLOOR:
        if constexpr (is_u && bit_ok) {
            T const r = etl::bit_floor(a);
            u64 x     = 0;
            if (ua != 0) {
                x = 1;
                while ((x << 1) != 0 && (x << 1) <= ua) { x <<= 1; }
            }
            if (ubits(r) != x || r != std::bit_floor(a)) { return fail(call1(), str(r), str(x)); }
            return OK;
        }
        return SKIP;
    case F_HAS_SINGLE_BIT:
        if constexpr (is_u && bit_ok) {
            bool const r = etl::has_single_bit(a);
            bool const x = ua != 0 && (ua & (ua - 1)) == 0;
            if (r != x || r != std::has_single_bit(a)) { return fail(call1(), str(r), str(x)); }
            return OK;
        }
        return SKIP;
    case F_ROTL:
    case F_ROTR:
        if constexpr (is_u && bit_ok) {
            int const s = static_cast<int>(static_cast<i64>(braw));
            T const r   = fn == F_ROTL ? etl::rotl(a, s) : etl::rotr(a, s);
            T const sx  = fn == F_ROTL ? std::rotl(a, s) : std::rotr(a, s);
            int left    = ((fn == F_ROTL ? s : -s) % N + N) % N; // rotation to the left, taken modulo the width
            u64 const x = left == 0 ? ua : (((ua << left) | (ua >> (N - left))) & mask);
            if (ubits(r) != x || r != sx) { return fail(std::string(FN[fn]) + "(" + tname<T>() + " " + str(a) + ", " + std::to_string(s) + ")", str(r), str(x)); }
            if (s >= -128 && s <= 127) { // the count passed as other integer types (converted to int by the call)
                auto const c1 = static_cast<signed char>(s);
                auto const c2 = static_cast<short>(s);
                auto const c3 = static_cast<long>(s);
                auto const c4 = static_cast<long long>(s);
                T const r1 = fn == F_ROTL ? etl::rotl(a, c1) : etl::rotr(a, c1);
                T const r2 = fn == F_ROTL ? etl::rotl(a, c2) : etl::rotr(a, c2);
                T const r3 = fn == F_ROTL ? etl::rotl(a, c3) : etl::rotr(a, c3);
                T const r4 = fn == F_ROTL ? etl::rotl(a, c4) : etl::rotr(a, c4);
                if (r1 != r || r2 != r || r3 != r || r4 != r) {
                    return fail(std::string(FN[fn]) + "(" + tname<T>() + " " + str(a) + ", count " + std::to_string(s) + " passed as signed char/short/long/long long)", str(r1) + "/" + str(r2) + "/" + str(r3) + "/" + str(r4), str(x));
                }
                if (s >= 0) {
                    T const r5 = fn == F_ROTL ? etl::rotl(a, static_cast<unsigned>(s)) : etl::rotr(a, static_cast<unsigned>(s));
                    T const r6 = fn == F_ROTL ? etl::rotl(a, static_cast<unsigned char>(s)) : etl::rotr(a, static_cast<unsigned char>(s));
                    if (r5 != r || r6 != r) { return fail(std::string(FN[fn]) + "(" + tname<T>() + " " + str(a) + ", count " + std::to_string(s) + " passed as unsigned/unsigned char)", str(r5) + "/" + str(r6), str(x)); }
                }
            }
            return OK;
        }
        return SKIP;
    case F_SET_BIT:
    case F_SET_BIT_VALUE:
    case F_RESET_BIT:
    case F_FLIP_BIT:
    case F_TEST_BIT:
        if constexpr (is_u && bit_ok) {
            if (braw >= static_cast<u64>(N)) { return SKIP; }
            T const pos = static_cast<T>(braw);
            u64 const m = u64{1} << braw;
            auto cp     = [&](char const* extra) { return std::string(FN[fn]) + "(" + tname<T>() + " " + str(a) + ", pos " + str(pos) + extra + ")"; };
            if (fn == F_SET_BIT) {
                T const r = etl::set_bit(a, pos);
                if (ubits(r) != (ua | m)) { return fail(cp(""), str(r), str(ua | m)); }
            } else if (fn == F_SET_BIT_VALUE) {
                T const r1 = etl::set_bit(a, pos, true);
                T const r0 = etl::set_bit(a, pos, false);
                if (ubits(r1) != (ua | m)) { return fail(cp(", true"), str(r1), str(ua | m)); }
                if (ubits(r0) != (ua & ~m)) { return fail(cp(", false"), str(r0), str(ua & ~m)); }
            } else if (fn == F_RESET_BIT) {
                T const r = etl::reset_bit(a, pos);
                if (ubits(r) != (ua & ~m)) { return fail(cp(""), str(r), str(ua & ~m)); }
            } else if (fn == F_FLIP_BIT) {
                T const r = etl::flip_bit(a, pos);
                if (ubits(r) != (ua ^ m)) { return fail(cp(""), str(r), str(ua ^ m)); }
            } else {
                bool const r = etl::test_bit(a, pos);
                if (r != ((ua & m) != 0)) { return fail(cp(""), str(r), str((ua & m) != 0)); }
            }
            return OK;
        }
        return SKIP;
    // ------------------------------------------------------------ every integer type
    case F_BYTESWAP:
        if constexpr (requires { etl::byteswap(a); }) {
        T const r = etl::byteswap(a);
        u64 x     = 0;
        for (int i = 0; i < N / 8; ++i) { x |= ((ua >> (8 * i)) & 0xFFU) << (8 * (N / 8 - 1 - i)); }
        if (ubits(r) != x) { return fail(call1(), str(r), str(static_cast<T>(static_cast<UT>(x)))); }
        if (etl::byteswap(r) != a) { return fail("byteswap(byteswap(" + std::string(tname<T>()) + " " + str(a) + "))", str(etl::byteswap(r)), str(a)); }
        return OK;
        }
        return SKIP;
    case F_ABS:
        if constexpr (!is_u && requires { etl::abs(a); }) {
            if (A == lo<T>()) { return SKIP; }
            auto const r = etl::abs(a);
            if (static_cast<i128>(r) != abs128(A)) { return fail(call1(), str(r), s128(abs128(A))); }
            return OK;
        }
        return SKIP;
    case F_ILOG2:
        if constexpr (requires { etl::ilog2(a); }) {
        if (A <= 0) { return SKIP; }
        T const r = etl::ilog2(a);
        int x     = 0;
        while ((A >> (x + 1)) != 0) { ++x; }
        if (static_cast<i128>(r) != x) { return fail(call1(), str(r), str(x)); }
        return OK;
        }
        return SKIP;
    case F_HTON:
        if constexpr (requires { etl::experimental::net::hton(a); }) {
            namespace net = etl::experimental::net;
            T const h = net::hton(a);
            T const n = net::ntoh(a);
            T x       = a;
            if constexpr (sizeof(T) == 2) { x = static_cast<T>(::htons(static_cast<u16>(a))); }
            if constexpr (sizeof(T) == 4) { x = static_cast<T>(::htonl(static_cast<u32>(a))); }
            if (h != x) { return fail("experimental::net::hton(" + std::string(tname<T>()) + " " + str(a) + ")", str(h), str(x)); }
            if (n != x) { return fail("experimental::net::ntoh(" + std::string(tname<T>()) + " " + str(a) + ")", str(n), str(x)); }
            if (net::ntoh(h) != a) { return fail("experimental::net::ntoh(hton(" + std::string(tname<T>()) + " " + str(a) + "))", str(net::ntoh(h)), str(a)); }
            return OK;
        }
        return SKIP;
    case F_ADD_SAT:
        if constexpr (requires { etl::add_sat(a, b); }) {
            T const r = etl::add_sat(a, b);
            T const x = clampT<T>(A + B);
            if (r != x) { return fail(call2(), str(r), str(x)); }
            return OK;
        }
        return SKIP;
    case F_DIV_SAT:
        if constexpr (requires { etl::div_sat(a, b); }) {
            if (B == 0) { return SKIP; }
            T const r = etl::div_sat(a, b);
            T const x = clampT<T>(A / B);
            if (r != x) { return fail(call2(), str(r), str(x)); }
            return OK;
        }
        return SKIP;
    case F_MIDPOINT:
        // (etl::midpoint accepts char, charN_t and wchar_t by its constraint but its body needs etl::make_unsigned, which
        // has no specialisation for them: a hard compile error, hence not part of the check)
        if constexpr (std_int && requires { etl::midpoint(a, b); }) {
            T const r = etl::midpoint(a, b);
            i128 x    = A + (B - A) / 2; // half the difference, truncated: rounds towards a
            if (static_cast<i128>(r) != x) { return fail(call2(), str(r), s128(x)); }
            if constexpr (std_int) {
                if (r != std::midpoint(a, b)) { return fail(call2(), str(r), s128(x)); }
            }
            return OK;
        }
        return SKIP;
    case F_GCD:
        if constexpr (std::is_integral_v<T> && !std::is_same_v<T, bool>) {
            if (!is_u && (A == lo<T>() || B == lo<T>())) { return SKIP; } // |m| or |n| not representable
            auto const r = etl::gcd(a, b);
            i128 const x = gcd128(A, B);
            if (static_cast<i128>(r) != x) { return fail(call2(), str(r), s128(x)); }
            if constexpr (std_int) {
                if (static_cast<i128>(std::gcd(a, b)) != x) { return fail(call2(), str(r), s128(x)); }
            }
            return OK;
        }
        return SKIP;
    case F_LCM:
        if constexpr (requires { etl::lcm(a, b); }) {
            if (!is_u && (A == lo<T>() || B == lo<T>())) { return SKIP; }
            using CT = std::common_type_t<T, T>;
            i128 x   = 0;
            if (!lcm_in<CT>(A, B, x)) { return SKIP; } // result not representable: undefined
            auto const r = etl::lcm(a, b);
            if (static_cast<i128>(r) != x) { return fail(call2(), str(r), s128(x)); }
            if constexpr (std_int) {
                if (static_cast<i128>(std::lcm(a, b)) != x) { return fail(call2(), str(r), s128(x)); }
            }
            return OK;
        }
        return SKIP;
    case F_IDIV:
        if constexpr (requires { etl::idiv(a, b); }) {
        if (B == 0 || !fits<T>(A / B)) { return SKIP; }
        auto const r = etl::idiv(a, b);
        if (static_cast<i128>(r.quot) != A / B || static_cast<i128>(r.rem) != A % B) { return fail(call2(), "{" + str(r.quot) + ", " + str(r.rem) + "}", "{" + s128(A / B) + ", " + s128(A % B) + "}"); }
        return OK;
        }
        return SKIP;
    case F_IPOW:
        if constexpr (requires { etl::ipow(a, b); }) {
        if (B < 0 || B > 255) { return SKIP; } // (linear loop: the exponent is bounded for run time only)
        i128 x = 1;
        for (i128 i = 0; i < B; ++i) {
            x *= A; // |x| <= 2^64 and |A| <= 2^64 here: no overflow of the 128-bit product for |A| < 2^63; guarded below
            if (!fits<T>(x) && abs128(A) > 1) { return SKIP; } // result (or a power on the way to it) not representable
            if (abs128(A) >= (i128{1} << 62) && i + 1 < B) { return SKIP; } // next product would not fit any type anyway
        }
        if (!fits<T>(x)) { return SKIP; }
        T const r = etl::ipow(a, b);
        if (static_cast<i128>(r) != x) { return fail(call2(), str(r), s128(x)); }
        return OK;
        }
        return SKIP;
    default: return SKIP;
    }
}

// ------------------------------------------------------------------------------------------------ one call, two types
template <typename T, typename U>
auto check2(Fn fn, T a, U b) -> Res
{
    i128 const A = static_cast<i128>(a);
    i128 const B = static_cast<i128>(b);
    auto args    = [&] { return std::string("(") + tname<T>() + " " + str(a) + ", " + tname<U>() + " " + str(b) + ")"; };
    switch (fn) {
    case F_CMP: {
        bool const e[6] = {etl::cmp_equal(a, b), etl::cmp_not_equal(a, b), etl::cmp_less(a, b), etl::cmp_less_equal(a, b), etl::cmp_greater(a, b), etl::cmp_greater_equal(a, b)};
        bool const s[6] = {std::cmp_equal(a, b), std::cmp_not_equal(a, b), std::cmp_less(a, b), std::cmp_less_equal(a, b), std::cmp_greater(a, b), std::cmp_greater_equal(a, b)};
        bool const x[6] = {A == B, A != B, A < B, A <= B, A > B, A >= B};
        char const* const nm[6] = {"cmp_equal", "cmp_not_equal", "cmp_less", "cmp_less_equal", "cmp_greater", "cmp_greater_equal"};
        for (int o = 0; o < 6; ++o) {
            if (e[o] != x[o] || s[o] != x[o]) {
                g_detail = std::string("etl::") + nm[o] + args() + " = " + str(e[o]) + ", expected " + str(x[o]) + " (std " + str(s[o]) + ")";
                return FAIL;
            }
        }
        return OK;
    }
    case F_IN_RANGE: { // is the value of a representable in U
        bool const r = etl::in_range<U>(a);
        bool const x = A >= static_cast<i128>(std::numeric_limits<U>::min()) && A <= static_cast<i128>(std::numeric_limits<U>::max());
        if (r != x || std::in_range<U>(a) != x) {
            g_detail = std::string("etl::in_range<") + tname<U>() + ">(" + tname<T>() + " " + str(a) + ") = " + str(r) + ", expected " + str(x);
            return FAIL;
        }
        return OK;
    }
    case F_SATURATE_CAST: {
        U const r = etl::saturate_cast<U>(a);
        U const x = clampT<U>(A);
        if (r != x) {
            g_detail = std::string("etl::saturate_cast<") + tname<U>() + ">(" + tname<T>() + " " + str(a) + ") = " + str(r) + ", expected " + str(x);
            return FAIL;
        }
        return OK;
    }
    case F_GCD_MIXED:
    case F_LCM_MIXED: {
        using CT = std::common_type_t<T, U>;
        if (!fits<CT>(abs128(A)) || !fits<CT>(abs128(B))) { return SKIP; }
        i128 const g = gcd128(A, B);
        if (fn == F_GCD_MIXED) {
            auto const r = etl::gcd(a, b);
            if (!std::is_same_v<decltype(r), CT const>) {
                g_detail = "etl::gcd" + args() + " does not return the common type";
                return FAIL;
            }
            if (static_cast<i128>(r) != g || static_cast<i128>(std::gcd(a, b)) != g) {
                g_detail = "etl::gcd" + args() + " = " + str(r) + ", expected " + s128(g);
                return FAIL;
            }
            return OK;
        }
        i128 x = 0;
        if (!lcm_in<CT>(A, B, x)) { return SKIP; }
        auto const r = etl::lcm(a, b);
        if (static_cast<i128>(r) != x || static_cast<i128>(std::lcm(a, b)) != x) {
            g_detail = "etl::lcm" + args() + " = " + str(r) + ", expected " + s128(x);
            return FAIL;
        }
        return OK;
    }
    default: return SKIP;
    }
}

// ------------------------------------------------------------------------------------------------ running a case
template <typename T>
constexpr bool is_signed_t = std::is_signed_v<T>;

bool g_replay = false;
std::string g_replay_detail;

template <typename T>
void report(Fn fn, Case const& k)
{
    (void)fn;
    if (g_replay) {
        g_replay_detail = g_detail;
    } else {
        vf::mismatch(k.fn, k, g_detail);
    }
}

template <typename T>
inline auto run(Fn fn, T a, u64 braw, bool b_signed) -> Res
{
    Case k{FN[fn], tname<T>(), std::is_signed_v<T> ? static_cast<u64>(static_cast<i64>(a)) : static_cast<u64>(a), braw, std::is_signed_v<T>, b_signed};
    vf::Flight<Case> fl(k.fn, k);
    T volatile va   = a; // run-time data: the call below is never a constant expression
    u64 volatile vb = braw;
    Res const r     = check<T>(fn, va, vb);
    if (r == FAIL) { report<T>(fn, k); }
    if (r == OK) { ++g_evals[fn]; }
    return r;
}
template <typename T>
auto sx(T v) -> u64 // sign- or zero-extended bits, the form used in Case
{
    return std::is_signed_v<T> ? static_cast<u64>(static_cast<i64>(v)) : static_cast<u64>(v);
}
template <typename T>
inline auto run_bin(Fn fn, T a, T b) -> Res
{
    Res const r = run<T>(fn, a, sx(b), std::is_signed_v<T>);
    if (r != SKIP) {
        bool const limit = a == std::numeric_limits<T>::min() || a == std::numeric_limits<T>::max() || b == std::numeric_limits<T>::min() || b == std::numeric_limits<T>::max();
        bool const mix   = (a < 0) != (b < 0);
        bool const zero  = a == 0 || b == 0;
        lab(L_LIMIT, limit);
        lab(L_SIGNMIX, mix);
        lab(L_ZERO, zero);
        if (limit || mix || zero) { ++g_nt; }
    }
    lab(L_IN_DOMAIN, r != SKIP);
    return r;
}
template <typename T>
inline auto run_un(Fn fn, T a) -> Res
{
    Res const r = run<T>(fn, a, 0, false);
    if (r != SKIP) {
        bool const limit = a == std::numeric_limits<T>::min() || a == std::numeric_limits<T>::max();
        lab(L_LIMIT, limit);
        lab(L_ZERO, a == 0);
        if (limit || a == 0 || a < 0) { ++g_nt; }
    }
    lab(L_IN_DOMAIN, r != SKIP);
    return r;
}
template <typename T>
inline auto run_rot(Fn fn, T a, int s) -> Res
{
    Res const r = run<T>(fn, a, static_cast<u64>(static_cast<i64>(s)), true);
    if (r != SKIP) {
        bool const out = s < 1 || s > bits_of<T> - 1;
        lab(L_COUNT_OUT, out);
        if (out || a == 0 || a == std::numeric_limits<T>::max()) { ++g_nt; }
    }
    return r;
}
template <typename T>
inline auto run_pos(Fn fn, T a, unsigned pos) -> Res
{
    Res const r = run<T>(fn, a, pos, false);
    if (r != SKIP && (pos == 0 || pos == static_cast<unsigned>(bits_of<T> - 1) || a == 0 || a == std::numeric_limits<T>::max())) { ++g_nt; }
    return r;
}
template <typename T, typename U>
inline auto run_pair(Fn fn, T a, U b) -> Res
{
    static std::string const ty = std::string(tname<T>()) + "," + tname<U>();
    Case k{FN[fn], ty.c_str(), sx(a), sx(b), std::is_signed_v<T>, std::is_signed_v<U>};
    vf::Flight<Case> fl(k.fn, k);
    if constexpr (std::is_signed_v<T> != std::is_signed_v<U>) {
        // known-finding class (only when bin/check passes the tag): gcd/lcm of a negative value of a signed type with
        // a value of an unsigned type, where the common type is unsigned
        if ((fn == F_GCD_MIXED || fn == F_LCM_MIXED) && std::is_unsigned_v<std::common_type_t<T, U>> && (a < 0 || b < 0)) {
            static bool const excluded = vf::ctx().excluded("numeric.gcd_lcm.negative_with_unsigned_common_type");
            if (excluded) {
                ++g_excluded;
                return SKIP;
            }
        }
    }
    T volatile va = a;
    U volatile vb = b;
    Res const r   = check2<T, U>(fn, va, vb);
    if (r == FAIL) { report<T>(fn, k); }
    if (r == OK) {
        g_evals[fn] += fn == F_CMP ? 6 : 1;
        i128 const A = static_cast<i128>(a), B = static_cast<i128>(b);
        bool const limit = A == lo<T>() || A == hi<T>() || B == lo<U>() || B == hi<U>() || A == lo<U>() || A == hi<U>() || B == lo<T>() || B == hi<T>();
        bool const mix   = (A < 0) != (B < 0);
        lab(L_LIMIT, limit);
        lab(L_SIGNMIX, mix);
        lab(L_ZERO, A == 0 || B == 0);
        if (limit || mix || A == 0 || B == 0) { ++g_nt; }
    }
    return r;
}

// ------------------------------------------------------------------------------------------------ value sets
// boundary values of a type: 0, +-1.., single bits, all-ones-below-bit, +-1 neighbours, complements, limits of every
// one of the eight types (+-1) as far as representable
template <typename T>
auto boundary() -> std::vector<T> const&
{
    static std::vector<T> const v = [] {
        std::vector<i128> c;
        for (int k = 0; k < 64; ++k) {
            i128 const p = i128{1} << k;
            for (i128 d : {i128{-2}, i128{-1}, i128{0}, i128{1}, i128{2}}) {
                c.push_back(p + d);
                c.push_back(-(p + d));
            }
            c.push_back(~p);
        }
        for (i128 x : {lo<i8>(), hi<i8>(), hi<u8>(), lo<i16>(), hi<i16>(), hi<u16>(), lo<i32>(), hi<i32>(), hi<u32>(), lo<i64>(), hi<i64>(), hi<u64>()}) {
            for (i128 d = -2; d <= 2; ++d) { c.push_back(x + d); }
        }
        for (i128 x : {i128{0}, i128{3}, i128{5}, i128{6}, i128{7}, i128{10}, i128{12}, i128{100}, i128{0x55}, i128{0xAA}, i128{0x5555}, i128{0xAAAA}, i128{0x55555555}, i128{0xAAAAAAAALL}, i128{0x5555555555555555LL},
                 i128{0x0123456789ABCDEFLL}, i128{0x00FF00FF}, i128{0x12345678}, i128{1000000007}, i128{6700417}, i128{641}, i128{2147483629}}) {
            c.push_back(x);
            c.push_back(-x);
        }
        std::vector<T> out;
        std::set<i128> seen;
        for (i128 x : c) {
            if (fits<T>(x) && seen.insert(x).second) { out.push_back(static_cast<T>(x)); }
        }
        return out;
    }();
    return v;
}
// boundary values plus bit patterns whose low / high halves are all-zero or all-one, shifted pairs of bits, and two
// bits exactly 8 / 16 / 32 apart (truncated to the width of T); used for the unary functions, rotations, bit
// positions and the template-index forms
template <typename T>
auto patterns() -> std::vector<T> const&
{
    static std::vector<T> const v = [] {
        using UT = std::make_unsigned_t<T>;
        std::vector<T> out = boundary<T>();
        std::set<u64> seen;
        for (T x : out) { seen.insert(ubits(x)); }
        std::vector<u64> c;
        for (int k = 0; k < 64; ++k) {
            u64 const b = u64{1} << k;
            c.push_back(u64{3} << k);
            c.push_back(u64{5} << k);
            c.push_back(u64{0xFF} << k);
            for (int d : {8, 16, 32}) {
                if (k + d < 64) { c.push_back(b | (u64{1} << (k + d))); }
            }
        }
        for (u64 x : {0xFFFFFFFF00000000ULL, 0x00000000FFFFFFFFULL, 0x00FF00FF00FF00FFULL, 0xFF00FF00FF00FF00ULL, 0xFFFF0000FFFF0000ULL, 0x0000FFFF0000FFFFULL, 0x8000000080000000ULL, 0x0000000100000001ULL,
                 0x0000000080000000ULL, 0x0000000100000000ULL, 0xFFFFFFFF80000000ULL, 0x7FFFFFFF00000000ULL, 0x0123456789ABCDEFULL, 0xFEDCBA9876543210ULL, 0xDEADBEEF00000000ULL, 0x00000000DEADBEEFULL,
                 0x8000000000000001ULL, 0xF0F0F0F00F0F0F0FULL}) {
            c.push_back(x);
            c.push_back(~x);
        }
        constexpr u64 mask = sizeof(T) == 8 ? ~u64{0} : ((u64{1} << (sizeof(T) * 8 % 64)) - 1);
        for (u64 x : c) {
            if (seen.insert(x & mask).second) { out.push_back(static_cast<T>(static_cast<UT>(x & mask))); }
        }
        return out;
    }();
    return v;
}
template <typename T>
inline constexpr bool bit_family_accepts = requires(T v) { etl::popcount(v); };

// the smaller grid used as the second operand of the 2^16 x boundary sweep
template <typename T>
auto grid16() -> std::vector<T> const&
{
    static std::vector<T> const v = [] {
        std::vector<T> out;
        std::set<i128> seen;
        for (T x : boundary<T>()) {
            i128 const X = static_cast<i128>(x);
            bool keep    = abs128(X) <= 3 || X >= hi<T>() - 2 || X <= lo<T>() + 2;
            for (int k = 2; k < 16; ++k) { keep = keep || abs128(X) == (i128{1} << k) || abs128(X) == (i128{1} << k) - 1 || abs128(X) == (i128{1} << k) + 1; }
            keep = keep || X == 100 || X == -100 || X == 0x5555 || X == 641 || X == 10 || X == 7 || X == -7 || X == 12;
            if (keep && seen.insert(X).second) { out.push_back(x); }
        }
        return out;
    }();
    return v;
}

// ------------------------------------------------------------------------------------------------ part 1: narrow types
template <typename T>
void narrow8(vf::Ctx& c, std::uint64_t& work)
{
    using UT = std::make_unsigned_t<T>;
    // unary: every value
    if (c.mine(work++)) {
        for (unsigned i = 0; i < 256; ++i) {
            T const a = static_cast<T>(static_cast<UT>(i));
            for (int f = UNARY_FIRST; f <= UNARY_LAST; ++f) { run_un<T>(static_cast<Fn>(f), a); }
        }
    }
    // binary: every pair
    for (int f = BINARY_FIRST; f <= BINARY_LAST; ++f) {
        if (!c.mine(work++)) { continue; }
        for (unsigned i = 0; i < 256; ++i) {
            for (unsigned j = 0; j < 256; ++j) { run_bin<T>(static_cast<Fn>(f), static_cast<T>(static_cast<UT>(i)), static_cast<T>(static_cast<UT>(j))); }
        }
    }
    if constexpr (std::is_unsigned_v<T>) {
        if (c.mine(work++)) {
            for (unsigned i = 0; i < 256; ++i) {
                T const a = static_cast<T>(i);
                for (int s = -130; s <= 130; ++s) {
                    run_rot<T>(F_ROTL, a, s);
                    run_rot<T>(F_ROTR, a, s);
                }
                for (unsigned p = 0; p < 8; ++p) {
                    for (int f = F_SET_BIT; f <= F_TEST_BIT; ++f) { run_pos<T>(static_cast<Fn>(f), a, p); }
                }
            }
        }
    }
}
template <typename T>
void narrow16(vf::Ctx& c, std::uint64_t& work)
{
    using UT = std::make_unsigned_t<T>;
    // unary: every value
    if (c.mine(work++)) {
        for (unsigned i = 0; i < 65536; ++i) {
            T const a = static_cast<T>(static_cast<UT>(i));
            for (int f = UNARY_FIRST; f <= UNARY_LAST; ++f) { run_un<T>(static_cast<Fn>(f), a); }
        }
    }
    // binary: 2^16 x grid, both orders
    auto const& g = grid16<T>();
    for (unsigned chunk = 0; chunk < 16; ++chunk) {
        if (!c.mine(work++)) { continue; }
        for (unsigned i = chunk * 4096; i < (chunk + 1) * 4096; ++i) {
            T const a = static_cast<T>(static_cast<UT>(i));
            for (T b : g) {
                for (int f = BINARY_FIRST; f <= BINARY_LAST; ++f) {
                    run_bin<T>(static_cast<Fn>(f), a, b);
                    run_bin<T>(static_cast<Fn>(f), b, a);
                }
            }
        }
    }
    if constexpr (std::is_unsigned_v<T>) {
        for (unsigned chunk = 0; chunk < 32; ++chunk) {
            if (!c.mine(work++)) { continue; }
            for (unsigned i = chunk * 2048; i < (chunk + 1) * 2048; ++i) {
                T const a = static_cast<T>(i);
                for (int s = -130; s <= 130; ++s) {
                    run_rot<T>(F_ROTL, a, s);
                    run_rot<T>(F_ROTR, a, s);
                }
                for (unsigned p = 0; p < 16; ++p) {
                    for (int f = F_SET_BIT; f <= F_TEST_BIT; ++f) { run_pos<T>(static_cast<Fn>(f), a, p); }
                }
            }
        }
    }
}
void narrow_char(vf::Ctx& c, std::uint64_t& work)
{
    if (!c.mine(work++)) { return; }
    namespace net = etl::experimental::net;
    for (int i = 0; i < 256; ++i) {
        char const a = static_cast<char>(static_cast<unsigned char>(i));
        Case k{FN[F_HTON], "char", static_cast<u64>(i), 0, false, false};
        vf::Flight<Case> fl(k.fn, k);
        if (net::hton(a) != a || net::ntoh(a) != a) {
            vf::mismatch(k.fn, k, "experimental::net::hton/ntoh(char " + std::to_string(i) + ") is not the identity");
            return;
        }
        ++g_evals[F_HTON];
    }
}

// ------------------------------------------------------------------------------------------------ part 2: wide boundary
template <typename T>
void wide(vf::Ctx& c, std::uint64_t& work)
{
    auto const& v = boundary<T>();
    auto const& w = patterns<T>();
    if (c.mine(work++)) {
        for (T a : w) {
            for (int f = UNARY_FIRST; f <= UNARY_LAST; ++f) { run_un<T>(static_cast<Fn>(f), a); }
        }
    }
    for (int f = BINARY_FIRST; f <= BINARY_LAST; ++f) {
        if (!c.mine(work++)) { continue; }
        for (T a : v) {
            for (T b : v) { run_bin<T>(static_cast<Fn>(f), a, b); }
        }
    }
    if constexpr (std::is_unsigned_v<T> && bit_family_accepts<T>) {
        if (c.mine(work++)) {
            for (T a : w) {
                for (int s = -130; s <= 130; ++s) {
                    run_rot<T>(F_ROTL, a, s);
                    run_rot<T>(F_ROTR, a, s);
                }
                for (unsigned p = 0; p < static_cast<unsigned>(bits_of<T>); ++p) {
                    for (int f = F_SET_BIT; f <= F_TEST_BIT; ++f) { run_pos<T>(static_cast<Fn>(f), a, p); }
                }
            }
        }
    }
}

template <typename T, typename U>
void pairs(vf::Ctx& c, std::uint64_t& work)
{
    using UT = std::make_unsigned_t<T>;
    using UU = std::make_unsigned_t<U>;
    auto all = [&](T a, U b) {
        run_pair<T, U>(F_CMP, a, b);
        run_pair<T, U>(F_GCD_MIXED, a, b);
        run_pair<T, U>(F_LCM_MIXED, a, b);
    };
    if constexpr (sizeof(T) == 1 && sizeof(U) == 1) {
        if (!c.mine(work++)) { return; }
        for (unsigned i = 0; i < 256; ++i) {
            T const a = static_cast<T>(static_cast<UT>(i));
            run_pair<T, U>(F_IN_RANGE, a, U{});
            run_pair<T, U>(F_SATURATE_CAST, a, U{});
            for (unsigned j = 0; j < 256; ++j) { all(a, static_cast<U>(static_cast<UU>(j))); }
        }
    } else if constexpr (sizeof(T) <= 2 && sizeof(U) <= 2) {
        // every value of the first type x the boundary grid of the second, and the other way round (work items of 8192 values)
        auto const limit_t = sizeof(T) == 1 ? 256U : 65536U;
        for (unsigned lo_i = 0; lo_i < limit_t; lo_i += 8192) {
            if (!c.mine(work++)) { continue; }
            for (unsigned i = lo_i; i < limit_t && i < lo_i + 8192; ++i) {
                T const a = static_cast<T>(static_cast<UT>(i));
                run_pair<T, U>(F_IN_RANGE, a, U{});
                run_pair<T, U>(F_SATURATE_CAST, a, U{});
                for (U b : grid16<U>()) { all(a, b); }
            }
        }
        auto const limit_u = sizeof(U) == 1 ? 256U : 65536U;
        for (unsigned lo_j = 0; lo_j < limit_u; lo_j += 8192) {
            if (!c.mine(work++)) { continue; }
            for (unsigned j = lo_j; j < limit_u && j < lo_j + 8192; ++j) {
                U const b = static_cast<U>(static_cast<UU>(j));
                for (T a : grid16<T>()) { all(a, b); }
            }
        }
    } else {
        if (!c.mine(work++)) { return; }
        for (T a : boundary<T>()) {
            run_pair<T, U>(F_IN_RANGE, a, U{});
            run_pair<T, U>(F_SATURATE_CAST, a, U{});
            for (U b : boundary<U>()) { all(a, b); }
        }
        if constexpr (sizeof(T) <= 2) { // every value of a narrow source
            auto const limit_t = sizeof(T) == 1 ? 256U : 65536U;
            for (unsigned i = 0; i < limit_t; ++i) {
                run_pair<T, U>(F_IN_RANGE, static_cast<T>(static_cast<UT>(i)), U{});
                run_pair<T, U>(F_SATURATE_CAST, static_cast<T>(static_cast<UT>(i)), U{});
            }
        }
    }
}
template <typename T>
void pairs_with_all(vf::Ctx& c, std::uint64_t& work)
{
    pairs<T, i8>(c, work);
    pairs<T, u8>(c, work);
    pairs<T, i16>(c, work);
    pairs<T, u16>(c, work);
    pairs<T, i32>(c, work);
    pairs<T, u32>(c, work);
    pairs<T, i64>(c, work);
    pairs<T, u64>(c, work);
}

// templated forms: set_bit<Pos>, set_bit<Pos>(w, bool), reset_bit<Pos>, flip_bit<Pos>, test_bit<Pos>, ipow<Base>.
// One case = one (word, Pos): the case is in flight before the first call, so a sanitizer report inside a form is
// attributed to it, and it can be replayed ("bit_template u64 <word> <pos>").
template <typename T, std::size_t Pos>
auto bit_tpl_check(T a) -> Res
{
    u64 const ua = ubits(a);
    u64 const m  = u64{1} << Pos;
    auto bad     = [&](char const* form, std::string const& got, std::string const& want) {
        g_detail = std::string("etl::") + form + " with Pos = " + std::to_string(Pos) + ", word = " + tname<T>() + " " + str(a) + ": got " + got + ", expected " + want;
        return FAIL;
    };
    T const r1 = etl::set_bit<Pos>(a);
    if (ubits(r1) != (ua | m)) { return bad("set_bit<Pos>(word)", str(r1), str(ua | m)); }
    T const r2 = etl::set_bit<Pos>(a, true);
    if (ubits(r2) != (ua | m)) { return bad("set_bit<Pos>(word, true)", str(r2), str(ua | m)); }
    T const r3 = etl::set_bit<Pos>(a, false);
    if (ubits(r3) != (ua & ~m)) { return bad("set_bit<Pos>(word, false)", str(r3), str(ua & ~m)); }
    T const r4 = etl::reset_bit<Pos>(a);
    if (ubits(r4) != (ua & ~m)) { return bad("reset_bit<Pos>(word)", str(r4), str(ua & ~m)); }
    T const r5 = etl::flip_bit<Pos>(a);
    if (ubits(r5) != (ua ^ m)) { return bad("flip_bit<Pos>(word)", str(r5), str(ua ^ m)); }
    bool const r6 = etl::test_bit<Pos>(a);
    if (r6 != ((ua & m) != 0)) { return bad("test_bit<Pos>(word)", str(r6), str((ua & m) != 0)); }
    return OK;
}
template <typename T, std::size_t... Pos>
constexpr auto bit_tpl_table(std::index_sequence<Pos...>) -> std::array<Res (*)(T), sizeof...(Pos)>
{
    return {&bit_tpl_check<T, Pos>...};
}
template <typename T>
auto run_bit_tpl(T a, unsigned pos) -> Res
{
    static constexpr auto table = bit_tpl_table<T>(std::make_index_sequence<sizeof(T) * 8>{});
    if (pos >= table.size()) { return SKIP; }
    Case k{FN[F_BIT_TEMPLATE], tname<T>(), sx(a), pos, false, false};
    vf::Flight<Case> fl(k.fn, k);
    T volatile va = a;
    Res const r   = table[pos](va);
    if (r == FAIL) { report<T>(F_BIT_TEMPLATE, k); }
    if (r == OK) {
        g_evals[F_BIT_TEMPLATE] += 6;
        if (pos == 0 || pos == table.size() - 1 || pos == 31 || pos == 32) { ++g_nt; }
    }
    return r;
}
template <typename T>
void bit_tpl(vf::Ctx& c, std::uint64_t& work)
{
    if (!c.mine(work++)) { return; }
    auto const& w = patterns<T>();
    for (auto it = w.rbegin(); it != w.rend(); ++it) { // the words with bits in both halves come first
        for (unsigned pos = 0; pos < sizeof(T) * 8; ++pos) { run_bit_tpl<T>(*it, pos); }
    }
}
template <auto Base>
void ipow_tpl(vf::Ctx& c, std::uint64_t& work)
{
    using T = decltype(Base);
    if (!c.mine(work++)) { return; }
    for (int e = 0; e < 70; ++e) {
        i128 x = 1;
        bool ok = true;
        for (int i = 0; i < e && ok; ++i) {
            x *= Base;
            if (!fits<T>(x)) { ok = false; }
        }
        if (!ok) { continue; }
        Case k{FN[F_IPOW_TEMPLATE], tname<T>(), sx(Base), static_cast<u64>(e), std::is_signed_v<T>, false};
        vf::Flight<Case> fl(k.fn, k);
        T const r = etl::ipow<Base>(static_cast<T>(e));
        if (static_cast<i128>(r) != x) {
            vf::mismatch(k.fn, k, "etl::ipow<" + str(Base) + ">(" + tname<T>() + " " + std::to_string(e) + ") = " + str(r) + ", expected " + s128(x));
            return;
        }
        ++g_evals[F_IPOW_TEMPLATE];
        ++g_nt;
    }
}

// popcount has two code paths: the builtin at run time and a portable loop during constant evaluation.  The loop is
// evaluated here at compile time into tables; the tables are compared with the definition at run time.
template <typename T, std::size_t N>
constexpr auto popcount_table(std::array<T, N> const& in) -> std::array<int, N>
{
    std::array<int, N> out{};
    for (std::size_t i = 0; i < N; ++i) { out[i] = etl::popcount(in[i]); }
    return out;
}
constexpr auto all_u8() -> std::array<u8, 256>
{
    std::array<u8, 256> a{};
    for (unsigned i = 0; i < 256; ++i) { a[i] = static_cast<u8>(i); }
    return a;
}
template <typename T>
constexpr auto bit_patterns() -> std::array<T, 4 * sizeof(T) * 8>
{
    std::array<T, 4 * sizeof(T) * 8> a{};
    for (std::size_t k = 0; k < sizeof(T) * 8; ++k) {
        T const bit  = static_cast<T>(T{1} << k);
        a[4 * k]     = bit;
        a[4 * k + 1] = static_cast<T>(bit - 1);
        a[4 * k + 2] = static_cast<T>(~bit);
        a[4 * k + 3] = static_cast<T>(bit | 1U | static_cast<T>(T{1} << (sizeof(T) * 8 - 1)));
    }
    return a;
}
template <typename T, std::size_t N>
void popcount_constexpr_one(std::array<T, N> const& in, std::array<int, N> const& out)
{
    for (std::size_t i = 0; i < N; ++i) {
        Case k{FN[F_POPCOUNT_CONSTEXPR], tname<T>(), sx(in[i]), 0, false, false};
        vf::Flight<Case> fl(k.fn, k);
        if (out[i] != naive_popcount(ubits(in[i]))) {
            vf::mismatch(k.fn, k, std::string("etl::popcount(") + tname<T>() + " " + str(in[i]) + ") evaluated in a constant expression = " + std::to_string(out[i]) + ", expected " + std::to_string(naive_popcount(ubits(in[i]))));
            return;
        }
        ++g_evals[F_POPCOUNT_CONSTEXPR];
        ++g_nt;
    }
}
void popcount_constexpr(vf::Ctx& c, std::uint64_t& work)
{
    if (!c.mine(work++)) { return; }
    static constexpr auto i8v = all_u8();
    static constexpr auto o8  = popcount_table(i8v);
    static constexpr auto i16v = bit_patterns<u16>();
    static constexpr auto o16  = popcount_table(i16v);
    static constexpr auto i32v = bit_patterns<u32>();
    static constexpr auto o32  = popcount_table(i32v);
    static constexpr auto i64v = bit_patterns<u64>();
    static constexpr auto o64  = popcount_table(i64v);
    popcount_constexpr_one(i8v, o8);
    popcount_constexpr_one(i16v, o16);
    popcount_constexpr_one(i32v, o32);
    popcount_constexpr_one(i64v, o64);
}

// ------------------------------------------------------------------------------------------------ constant-evaluated leg
// Several functions choose between a compiler builtin (run time) and a portable fallback (`is_constant_evaluated()`).
// Everything above feeds run-time data, i.e. the builtin branch.  Here every function is ALSO evaluated inside the
// constant initialiser of a table (per function and per type, all ten distinct integer types), over boundary values
// (0, 1, 2^k, 2^k +- 1, ~2^k, sparse / dense patterns, min, max; mixed-sign pairs for the binary functions).  At run
// time each table entry is compared with the run-time result of the same call (volatile arguments) and with the std
// function where one exists.  The tables are `const` objects of static storage duration, not `constexpr`: if an
// evaluation is not a constant expression the initialisation silently happens at run time instead, the table records
// that (`constant_evaluated == false`) and it is reported as a failure of a case, not as a build error.
enum CeFn {
    CE_POPCOUNT, CE_COUNTL_ZERO, CE_COUNTL_ONE, CE_COUNTR_ZERO, CE_COUNTR_ONE, CE_BIT_WIDTH, CE_BIT_CEIL, CE_BIT_FLOOR, CE_HAS_SINGLE_BIT, CE_BYTESWAP, CE_ABS,
    CE_SATURATE_I8, CE_SATURATE_U8, CE_SATURATE_I32, CE_SATURATE_U64,
    CE_ADD_SAT, CE_DIV_SAT, CE_MIDPOINT, CE_GCD, CE_LCM, CE_ROTL, CE_ROTR, CE_SET_BIT, CE_SET_BIT_TRUE, CE_SET_BIT_FALSE, CE_RESET_BIT, CE_FLIP_BIT, CE_TEST_BIT,
    CE_COUNT
};
constexpr int CE_FIRST_BINARY = CE_ADD_SAT;
char const* const CE_NAME[CE_COUNT] = {"popcount", "countl_zero", "countl_one", "countr_zero", "countr_one", "bit_width", "bit_ceil", "bit_floor", "has_single_bit", "byteswap", "abs", "saturate_cast<i8>", "saturate_cast<u8>",
    "saturate_cast<i32>", "saturate_cast<u64>", "add_sat", "div_sat", "midpoint", "gcd", "lcm", "rotl", "rotr", "set_bit", "set_bit_true", "set_bit_false", "reset_bit", "flip_bit", "test_bit"};

struct CeRes {
    bool dom;
    u64 val;
};
template <typename T>
constexpr auto ce_bits(T v) -> u64 { return std::is_signed_v<T> ? static_cast<u64>(static_cast<i64>(v)) : static_cast<u64>(v); }

// one call; the same function body is used for the constant-evaluated table and for the run-time comparison
template <typename T, int F>
constexpr auto ce_apply(T a, T b) -> CeRes
{
    constexpr int N     = static_cast<int>(sizeof(T) * 8);
    constexpr bool is_u = std::is_unsigned_v<T>;
    using UT            = std::make_unsigned_t<T>;
    [[maybe_unused]] i128 const A = static_cast<i128>(a);
    [[maybe_unused]] i128 const B = static_cast<i128>(b);
    if constexpr (F <= CE_HAS_SINGLE_BIT) {
        if constexpr (is_u) {
            if constexpr (F == CE_POPCOUNT) { return {true, static_cast<u64>(etl::popcount(a))}; }
            if constexpr (F == CE_COUNTL_ZERO) { return {true, static_cast<u64>(etl::countl_zero(a))}; }
            if constexpr (F == CE_COUNTL_ONE) { return {true, static_cast<u64>(etl::countl_one(a))}; }
            if constexpr (F == CE_COUNTR_ZERO) { return {true, static_cast<u64>(etl::countr_zero(a))}; }
            if constexpr (F == CE_COUNTR_ONE) { return {true, static_cast<u64>(etl::countr_one(a))}; }
            if constexpr (F == CE_BIT_WIDTH) { return {true, static_cast<u64>(etl::bit_width(a))}; }
            if constexpr (F == CE_BIT_CEIL) {
                if (static_cast<u64>(a) > (u64{1} << (N - 1))) { return {false, 0}; }
                return {true, static_cast<u64>(etl::bit_ceil(a))};
            }
            if constexpr (F == CE_BIT_FLOOR) { return {true, static_cast<u64>(etl::bit_floor(a))}; }
            if constexpr (F == CE_HAS_SINGLE_BIT) { return {true, static_cast<u64>(etl::has_single_bit(a))}; }
        }
        return {false, 0};
    } else if constexpr (F == CE_BYTESWAP) {
        return {true, ce_bits(etl::byteswap(a))};
    } else if constexpr (F == CE_ABS) {
        if constexpr (!is_u) {
            if (a == std::numeric_limits<T>::min()) { return {false, 0}; }
            return {true, ce_bits(etl::abs(a))};
        }
        return {false, 0};
    } else if constexpr (F == CE_SATURATE_I8) {
        return {true, ce_bits(etl::saturate_cast<i8>(a))};
    } else if constexpr (F == CE_SATURATE_U8) {
        return {true, ce_bits(etl::saturate_cast<u8>(a))};
    } else if constexpr (F == CE_SATURATE_I32) {
        return {true, ce_bits(etl::saturate_cast<i32>(a))};
    } else if constexpr (F == CE_SATURATE_U64) {
        return {true, ce_bits(etl::saturate_cast<u64>(a))};
    } else if constexpr (F == CE_ADD_SAT) {
        return {true, ce_bits(etl::add_sat(a, b))};
    } else if constexpr (F == CE_DIV_SAT) {
        if (b == 0) { return {false, 0}; }
        return {true, ce_bits(etl::div_sat(a, b))};
    } else if constexpr (F == CE_MIDPOINT) {
        return {true, ce_bits(etl::midpoint(a, b))};
    } else if constexpr (F == CE_GCD || F == CE_LCM) {
        if (!is_u && (a == std::numeric_limits<T>::min() || b == std::numeric_limits<T>::min())) { return {false, 0}; }
        if constexpr (F == CE_GCD) {
            return {true, ce_bits(etl::gcd(a, b))};
        } else {
            i128 x = 0;
            if (!lcm_in<T>(A, B, x)) { return {false, 0}; }
            return {true, ce_bits(etl::lcm(a, b))};
        }
    } else if constexpr (F == CE_ROTL || F == CE_ROTR) {
        if constexpr (is_u) {
            int const s = static_cast<int>(static_cast<u64>(b) % 131U) * ((static_cast<u64>(a) & 1U) != 0 ? -1 : 1);
            return {true, static_cast<u64>(F == CE_ROTL ? etl::rotl(a, s) : etl::rotr(a, s))};
        }
        return {false, 0};
    } else {
        if constexpr (is_u) {
            T const pos = static_cast<T>(static_cast<UT>(static_cast<u64>(b) % static_cast<unsigned>(N)));
            if constexpr (F == CE_SET_BIT) { return {true, static_cast<u64>(etl::set_bit(a, pos))}; }
            if constexpr (F == CE_SET_BIT_TRUE) { return {true, static_cast<u64>(etl::set_bit(a, pos, true))}; }
            if constexpr (F == CE_SET_BIT_FALSE) { return {true, static_cast<u64>(etl::set_bit(a, pos, false))}; }
            if constexpr (F == CE_RESET_BIT) { return {true, static_cast<u64>(etl::reset_bit(a, pos))}; }
            if constexpr (F == CE_FLIP_BIT) { return {true, static_cast<u64>(etl::flip_bit(a, pos))}; }
            if constexpr (F == CE_TEST_BIT) { return {true, static_cast<u64>(etl::test_bit(a, pos))}; }
        }
        return {false, 0};
    }
}
// the std counterpart, where libstdc++ 12 has one
template <typename T, int F>
auto ce_std(T a, T b, bool& has) -> u64
{
    has = true;
    if constexpr (std::is_unsigned_v<T>) {
        if constexpr (F == CE_POPCOUNT) { return static_cast<u64>(std::popcount(a)); }
        if constexpr (F == CE_COUNTL_ZERO) { return static_cast<u64>(std::countl_zero(a)); }
        if constexpr (F == CE_COUNTL_ONE) { return static_cast<u64>(std::countl_one(a)); }
        if constexpr (F == CE_COUNTR_ZERO) { return static_cast<u64>(std::countr_zero(a)); }
        if constexpr (F == CE_COUNTR_ONE) { return static_cast<u64>(std::countr_one(a)); }
        if constexpr (F == CE_BIT_WIDTH) { return static_cast<u64>(std::bit_width(a)); }
        if constexpr (F == CE_BIT_CEIL) { return static_cast<u64>(std::bit_ceil(a)); }
        if constexpr (F == CE_BIT_FLOOR) { return static_cast<u64>(std::bit_floor(a)); }
        if constexpr (F == CE_HAS_SINGLE_BIT) { return static_cast<u64>(std::has_single_bit(a)); }
        if constexpr (F == CE_ROTL || F == CE_ROTR) {
            int const s = static_cast<int>(static_cast<u64>(b) % 131U) * ((static_cast<u64>(a) & 1U) != 0 ? -1 : 1);
            return static_cast<u64>(F == CE_ROTL ? std::rotl(a, s) : std::rotr(a, s));
        }
    }
    if constexpr (F == CE_MIDPOINT) { return ce_bits(std::midpoint(a, b)); }
    if constexpr (F == CE_GCD) { return ce_bits(std::gcd(a, b)); }
    if constexpr (F == CE_LCM) { return ce_bits(std::lcm(a, b)); }
    if constexpr (F == CE_ADD_SAT) { return ce_bits(clampT<T>(static_cast<i128>(a) + static_cast<i128>(b))); }
    if constexpr (F == CE_DIV_SAT) { return ce_bits(clampT<T>(static_cast<i128>(a) / static_cast<i128>(b))); }
    if constexpr (F == CE_SATURATE_I8) { return ce_bits(clampT<i8>(static_cast<i128>(a))); }
    if constexpr (F == CE_SATURATE_U8) { return ce_bits(clampT<u8>(static_cast<i128>(a))); }
    if constexpr (F == CE_SATURATE_I32) { return ce_bits(clampT<i32>(static_cast<i128>(a))); }
    if constexpr (F == CE_SATURATE_U64) { return ce_bits(clampT<u64>(static_cast<i128>(a))); }
    if constexpr (F == CE_ABS) { return ce_bits(static_cast<T>(a < 0 ? -a : a)); }
    has = false;
    return 0;
}

template <typename T>
inline constexpr int CE_NV1 = static_cast<int>(sizeof(T) * 8 * 4 + 10);
constexpr int CE_NV2 = 22;
template <typename T>
constexpr auto ce_vals1() -> std::array<T, static_cast<std::size_t>(CE_NV1<T>)>
{
    using UT        = std::make_unsigned_t<T>;
    constexpr int N = static_cast<int>(sizeof(T) * 8);
    std::array<T, static_cast<std::size_t>(CE_NV1<T>)> v{};
    std::size_t n = 0;
    for (int k = 0; k < N; ++k) {
        UT const bit = static_cast<UT>(UT{1} << k);
        v[n++]       = static_cast<T>(bit);
        v[n++]       = static_cast<T>(static_cast<UT>(bit - 1));
        v[n++]       = static_cast<T>(static_cast<UT>(bit + 1));
        v[n++]       = static_cast<T>(static_cast<UT>(~bit));
    }
    UT const top = static_cast<UT>(UT{1} << (N - 1));
    v[n++]       = T{0};
    v[n++]       = std::numeric_limits<T>::max();
    v[n++]       = std::numeric_limits<T>::min();
    v[n++]       = static_cast<T>(static_cast<UT>(0x5555555555555555ULL));
    v[n++]       = static_cast<T>(static_cast<UT>(0xAAAAAAAAAAAAAAAAULL));
    v[n++]       = static_cast<T>(static_cast<UT>(top | 1U));
    v[n++]       = static_cast<T>(static_cast<UT>(top | static_cast<UT>(UT{1} << (N / 2))));
    v[n++]       = static_cast<T>(static_cast<UT>(0x0F0F0F0F0F0F0F0FULL));
    v[n++]       = static_cast<T>(static_cast<UT>(static_cast<UT>(UT{1} << (N / 2)) | 1U));
    v[n++]       = static_cast<T>(static_cast<UT>(0x0123456789ABCDEFULL));
    return v;
}
template <typename T>
constexpr auto ce_vals2() -> std::array<T, CE_NV2>
{
    using UT        = std::make_unsigned_t<T>;
    constexpr int N = static_cast<int>(sizeof(T) * 8);
    auto neg        = [](unsigned x) { return static_cast<T>(static_cast<UT>(UT{0} - static_cast<UT>(x))); }; // -x (wraps for unsigned)
    return {T{0}, T{1}, T{2}, T{3}, T{5}, T{6}, T{7}, T{10}, T{12}, neg(1), neg(2), neg(5), neg(10), std::numeric_limits<T>::max(), std::numeric_limits<T>::min(), static_cast<T>(std::numeric_limits<T>::max() - 1),
        static_cast<T>(std::numeric_limits<T>::min() + 1), static_cast<T>(static_cast<UT>(UT{1} << (N / 2))), static_cast<T>(static_cast<UT>(static_cast<UT>(UT{1} << (N / 2)) - 1)), static_cast<T>(static_cast<UT>(UT{1} << (N - 2))),
        static_cast<T>(static_cast<UT>(0x5555555555555555ULL)), static_cast<T>(static_cast<UT>(static_cast<UT>(UT{1} << (N - 1)) | 1U))};
}
template <typename T, int F>
struct CeTab {
    static constexpr std::size_t n = F < CE_FIRST_BINARY ? static_cast<std::size_t>(CE_NV1<T>) : static_cast<std::size_t>(CE_NV2 * CE_NV2);
    bool constant_evaluated;
    std::array<u64, n> val;
    std::array<bool, n> dom;
};
template <typename T, int F>
constexpr auto ce_arg(std::size_t i, T& a, T& b) -> void
{
    if constexpr (F < CE_FIRST_BINARY) {
        a = ce_vals1<T>()[i];
        b = T{0};
    } else {
        a = ce_vals2<T>()[i / CE_NV2];
        b = ce_vals2<T>()[i % CE_NV2];
    }
}
template <typename T, int F>
constexpr auto ce_make() -> CeTab<T, F>
{
    CeTab<T, F> t{};
    t.constant_evaluated = std::is_constant_evaluated();
    auto const v1        = ce_vals1<T>();
    auto const v2        = ce_vals2<T>();
    for (std::size_t i = 0; i < CeTab<T, F>::n; ++i) {
        T const a     = F < CE_FIRST_BINARY ? v1[i] : v2[i / CE_NV2];
        T const b     = F < CE_FIRST_BINARY ? T{0} : v2[i % CE_NV2];
        CeRes const r = ce_apply<T, F>(a, b);
        t.val[i]      = r.val;
        t.dom[i]      = r.dom;
    }
    return t;
}
// static storage duration, constant initialisation is attempted first (see the comment at the top of this section)
template <typename T, int F>
inline CeTab<T, F> const ce_table = ce_make<T, F>();

// type-erased view of one table, so that the comparison loop and the messages are compiled once
struct CeDesc {
    char const* type;
    char const* fname;
    bool is_signed, binary, constant_evaluated;
    std::size_t n;
    u64 const* val;
    bool const* dom;
    void (*arg)(std::size_t, u64&, u64&);
    CeRes (*apply)(u64, u64);        // the same call at run time
    u64 (*ref)(u64, u64, bool&);     // std / definition
};
template <typename T, int F>
auto ce_desc() -> CeDesc
{
    using UT        = std::make_unsigned_t<T>;
    auto const& tab = ce_table<T, F>;
    return CeDesc{tname<T>(), CE_NAME[F], std::is_signed_v<T>, F >= CE_FIRST_BINARY, tab.constant_evaluated, CeTab<T, F>::n, tab.val.data(), tab.dom.data(),
        +[](std::size_t i, u64& a, u64& b) {
            T x{}, y{};
            ce_arg<T, F>(i, x, y);
            a = sx(x);
            b = sx(y);
        },
        +[](u64 a, u64 b) {
            T volatile va = static_cast<T>(static_cast<UT>(a));
            T volatile vb = static_cast<T>(static_cast<UT>(b));
            return ce_apply<T, F>(va, vb);
        },
        +[](u64 a, u64 b, bool& has) { return ce_std<T, F>(static_cast<T>(static_cast<UT>(a)), static_cast<T>(static_cast<UT>(b)), has); }};
}
bool g_ce_filter = false;
u64 g_ce_a = 0, g_ce_b = 0;
void ce_check(CeDesc const& d)
{
    std::string const ty = std::string(d.type) + "/" + d.fname;
    auto num             = [&](u64 v) { return d.is_signed ? std::to_string(static_cast<i64>(v)) : std::to_string(v); };
    for (std::size_t i = 0; i < d.n; ++i) {
        u64 a = 0, b = 0;
        d.arg(i, a, b);
        if (g_ce_filter && (a != g_ce_a || b != g_ce_b)) { continue; }
        Case k{FN[F_CONSTANT_EVALUATED], ty.c_str(), a, b, d.is_signed, d.is_signed};
        vf::Flight<Case> fl(k.fn, k);
        auto call = [&] { return std::string("etl::") + d.fname + "(" + d.type + " " + num(a) + (d.binary ? ", " + num(b) : std::string()) + ")"; };
        if (!d.constant_evaluated) {
            vf::mismatch(k.fn, k, std::string("etl::") + d.fname + " for " + d.type + ": the table of results could not be constant-initialised (some in-domain call is not a constant expression)");
            return;
        }
        CeRes const r = d.apply(a, b); // run-time path
        if (r.dom != d.dom[i] || (r.dom && r.val != d.val[i])) {
            vf::mismatch(k.fn, k, call() + " evaluated in a constant expression = " + num(d.val[i]) + ", at run time = " + num(r.val));
            return;
        }
        if (r.dom) {
            bool has      = false;
            u64 const ref = d.ref(a, b, has);
            if (has && ref != d.val[i]) {
                vf::mismatch(k.fn, k, call() + " evaluated in a constant expression = " + num(d.val[i]) + ", expected " + num(ref));
                return;
            }
            ++g_evals[F_CONSTANT_EVALUATED];
            ++g_nt;
        }
    }
}
template <typename T, int... F>
void ce_type(std::integer_sequence<int, F...>)
{
    (ce_check(ce_desc<T, F>()), ...);
}
template <typename T>
void ce_all(vf::Ctx& c, std::uint64_t& work)
{
    if (!c.mine(work++)) { return; }
    ce_type<T>(std::make_integer_sequence<int, CE_COUNT>{});
}
template <typename T, int... F>
auto ce_replay_fn(std::string const& name, std::integer_sequence<int, F...>) -> bool
{
    bool found = false;
    ((name == CE_NAME[F] ? (ce_check(ce_desc<T, F>()), found = true) : false), ...);
    return found;
}

// ------------------------------------------------------------------------------------------------ part 3: random sweep
template <typename T>
auto gen(vf::Rng& r) -> T
{
    using UT     = std::make_unsigned_t<T>;
    constexpr int N = bits_of<T>;
    u64 const x  = r.next();
    switch (x & 7U) {
    case 0:
    case 1: return static_cast<T>(static_cast<UT>(r.next()));
    case 2:
    case 3: {
        auto const w = static_cast<int>((x >> 3) % static_cast<unsigned>(N)) + 1;
        UT mag       = static_cast<UT>(r.next() >> (64 - w));
        if (std::is_signed_v<T> && ((x >> 12) & 1U)) { mag = static_cast<UT>(UT{0} - mag); }
        return static_cast<T>(mag);
    }
    case 4: {
        UT const k = static_cast<UT>((x >> 3) & 3U);
        return ((x >> 8) & 1U) ? static_cast<T>(static_cast<UT>(static_cast<UT>(std::numeric_limits<T>::max()) - k)) : static_cast<T>(static_cast<UT>(static_cast<UT>(std::numeric_limits<T>::min()) + k));
    }
    case 5: {
        auto const k = static_cast<int>((x >> 3) % static_cast<unsigned>(N));
        UT v         = static_cast<UT>(UT{1} << k);
        v            = static_cast<UT>(v + static_cast<UT>((x >> 12) % 5U) - UT{2});
        if (std::is_signed_v<T> && ((x >> 16) & 1U)) { v = static_cast<UT>(UT{0} - v); }
        return static_cast<T>(v);
    }
    case 6: return static_cast<T>(static_cast<UT>(static_cast<UT>((x >> 3) % 17U) - UT{8}));
    default: {
        static i128 const lim[] = {lo<i8>(), hi<i8>(), hi<u8>(), lo<i16>(), hi<i16>(), hi<u16>(), lo<i32>(), hi<i32>(), hi<u32>(), lo<i64>(), hi<i64>(), hi<u64>()};
        i128 const v = lim[(x >> 3) % 12U] + static_cast<i128>((x >> 8) % 3U) - 1;
        return static_cast<T>(static_cast<UT>(static_cast<u128>(v)));
    }
    }
}
template <typename T, typename U>
void sweep_pair(T a, vf::Rng& r)
{
    U const b = gen<U>(r);
    run_pair<T, U>(F_CMP, a, b);
    run_pair<T, U>(F_IN_RANGE, a, U{});
    run_pair<T, U>(F_SATURATE_CAST, a, U{});
}
template <typename T>
void sweep(vf::Rng& r, std::uint64_t n)
{
    for (std::uint64_t it = 0; it < n; ++it) {
        T const a = gen<T>(r);
        T b       = gen<T>(r);
        if ((it & 7U) == 0) { // near-equal pairs (unsigned arithmetic: wraps instead of overflowing)
            using UT = std::make_unsigned_t<T>;
            b        = static_cast<T>(static_cast<UT>(static_cast<UT>(a) + static_cast<UT>(r.next() % 5U) - UT{2}));
        }
        for (int f = UNARY_FIRST; f <= UNARY_LAST; ++f) { run_un<T>(static_cast<Fn>(f), a); }
        for (int f = BINARY_FIRST; f <= BINARY_LAST; ++f) {
            if (f == F_IPOW) {
                run_bin<T>(F_IPOW, a, static_cast<T>(r.next() % 70U));
            } else {
                run_bin<T>(static_cast<Fn>(f), a, b);
            }
        }
        if constexpr (std::is_unsigned_v<T>) {
            int const s = static_cast<int>(r.next() % 261U) - 130;
            run_rot<T>(F_ROTL, a, s);
            run_rot<T>(F_ROTR, a, s);
            auto const p = static_cast<unsigned>(r.next() % static_cast<unsigned>(bits_of<T>));
            for (int f = F_SET_BIT; f <= F_TEST_BIT; ++f) { run_pos<T>(static_cast<Fn>(f), a, p); }
        }
        switch (it & 7U) {
        case 0: sweep_pair<T, i8>(a, r); break;
        case 1: sweep_pair<T, u8>(a, r); break;
        case 2: sweep_pair<T, i16>(a, r); break;
        case 3: sweep_pair<T, u16>(a, r); break;
        case 4: sweep_pair<T, i32>(a, r); break;
        case 5: sweep_pair<T, u32>(a, r); break;
        case 6: sweep_pair<T, i64>(a, r); break;
        default: sweep_pair<T, u64>(a, r); break;
        }
        if ((it & 0xFFFFF) == 0) {
            vf::sample("sweep", [&] { return std::string("random pair (") + tname<T>() + " " + str(a) + ", " + str(b) + "): all unary functions on the first, all binary functions on the pair"; });
        }
    }
}

// ------------------------------------------------------------------------------------------------ part 4: other types
// every value of a narrow character type for the unary functions (in addition to wide<T>() on its boundary values)
template <typename T>
void all_values_unary(vf::Ctx& c, std::uint64_t& work)
{
    if constexpr (sizeof(T) <= 2) {
        if (!c.mine(work++)) { return; }
        using UT           = std::make_unsigned_t<T>;
        unsigned const lim = sizeof(T) == 1 ? 256U : 65536U;
        for (unsigned i = 0; i < lim; ++i) {
            for (int f = UNARY_FIRST; f <= UNARY_LAST; ++f) { run_un<T>(static_cast<Fn>(f), static_cast<T>(static_cast<UT>(i))); }
        }
    }
}
void bool_byteswap(vf::Ctx& c, std::uint64_t& work)
{
    if (!c.mine(work++)) { return; }
    for (int i = 0; i < 2; ++i) {
        Case k{FN[F_BYTESWAP], "bool", static_cast<u64>(i), 0, false, false};
        vf::Flight<Case> fl(k.fn, k);
        bool volatile v = i != 0;
        bool const r    = etl::byteswap(static_cast<bool>(v));
        if (r != (i != 0)) {
            vf::mismatch(k.fn, k, std::string("etl::byteswap(bool ") + (i ? "true" : "false") + ") is not the identity");
            return;
        }
        ++g_evals[F_BYTESWAP];
    }
}
template <typename T>
void pairs_of_other_type(vf::Ctx& c, std::uint64_t& work)
{
    pairs_with_all<T>(c, work); // (T, each alias)
    pairs<i8, T>(c, work);
    pairs<u8, T>(c, work);
    pairs<i16, T>(c, work);
    pairs<u16, T>(c, work);
    pairs<i32, T>(c, work);
    pairs<u32, T>(c, work);
    pairs<i64, T>(c, work);
    pairs<u64, T>(c, work);
}

// ------------------------------------------------------------------------------------------------ replay dispatch
template <typename T>
auto replay_single(Fn fn, u64 a, u64 b) -> bool
{
    using UT = std::make_unsigned_t<T>;
    if (fn == F_IPOW_TEMPLATE || fn == F_POPCOUNT_CONSTEXPR) { return false; }
    if (fn == F_BIT_TEMPLATE) { return false; }
    Case k{FN[fn], tname<T>(), a, b, std::is_signed_v<T>, false};
    vf::Flight<Case> fl(k.fn, k);
    T volatile va = static_cast<T>(static_cast<UT>(a));
    u64 volatile vb = b;
    Res const r = check<T>(fn, va, vb);
    if (r == FAIL) { g_replay_detail = g_detail; }
    return true;
}
template <typename T>
inline constexpr bool is_alias_type_fwd = std::is_same_v<T, i8> || std::is_same_v<T, u8> || std::is_same_v<T, i16> || std::is_same_v<T, u16> || std::is_same_v<T, i32> || std::is_same_v<T, u32> || std::is_same_v<T, i64> || std::is_same_v<T, u64>;
template <typename T, typename U>
auto replay_pair2(Fn fn, u64 a, u64 b) -> bool
{
    static std::string const ty = std::string(tname<T>()) + "," + tname<U>();
    Case k{FN[fn], ty.c_str(), a, b, std::is_signed_v<T>, std::is_signed_v<U>};
    vf::Flight<Case> fl(k.fn, k);
    T volatile va = static_cast<T>(static_cast<std::make_unsigned_t<T>>(a));
    U volatile vb = static_cast<U>(static_cast<std::make_unsigned_t<U>>(b));
    Res const r   = check2<T, U>(fn, va, vb);
    if (r == FAIL) { g_replay_detail = g_detail; }
    return true;
}
template <typename T, typename U>
auto try_pair(Fn fn, std::string const& u, u64 a, u64 b, bool& result) -> bool
{
    // in the "types" harness a pair is replayable if one of its two types is a non-alias type
    constexpr bool here = C14_PART != 4 || !is_alias_type_fwd<T> || !is_alias_type_fwd<U>;
    if constexpr (here) {
        if (u == tname<U>()) {
            result = replay_pair2<T, U>(fn, a, b);
            return true;
        }
    }
    return false;
}
template <typename T>
auto replay_pair1(Fn fn, std::string const& u, u64 a, u64 b) -> bool
{
    bool r = false;
    if (try_pair<T, i8>(fn, u, a, b, r) || try_pair<T, u8>(fn, u, a, b, r) || try_pair<T, i16>(fn, u, a, b, r) || try_pair<T, u16>(fn, u, a, b, r) || try_pair<T, i32>(fn, u, a, b, r) || try_pair<T, u32>(fn, u, a, b, r)
        || try_pair<T, i64>(fn, u, a, b, r) || try_pair<T, u64>(fn, u, a, b, r)) {
        return r;
    }
#if C14_PART == 0 || C14_PART == 4
    if (try_pair<T, ull>(fn, u, a, b, r) || try_pair<T, ll>(fn, u, a, b, r)) { return r; }
#endif
    return false;
}
// Each harness binary only replays the cases it can produce itself (keeps every translation unit below ~1 GB of
// compiler memory): narrow = single-type cases of the 8/16-bit aliases; wide = single-type cases of the 32/64-bit
// aliases and the template-index forms; pairs = every pair of aliases; sweep = 32/64-bit aliases (pairs with a
// 32/64-bit first type); types = the non-alias types and the pairs that involve one of them.
template <typename T>
inline constexpr bool is_alias_type = std::is_same_v<T, i8> || std::is_same_v<T, u8> || std::is_same_v<T, i16> || std::is_same_v<T, u16> || std::is_same_v<T, i32> || std::is_same_v<T, u32> || std::is_same_v<T, i64> || std::is_same_v<T, u64>;
template <bool Pair, typename T>
constexpr auto replay_here() -> bool
{
    constexpr bool alias = is_alias_type<T>;
    constexpr bool ext   = std::is_same_v<T, ull> || std::is_same_v<T, ll>;
    if (C14_PART == 0) { return true; }
    if (C14_PART == 1) { return !Pair && alias && sizeof(T) <= 2; }
    if (C14_PART == 2) { return !Pair && alias && sizeof(T) >= 4; }
    if (C14_PART == 5) { return Pair && alias; }
    if (C14_PART == 3) { return alias && sizeof(T) >= 4; }
    if (C14_PART == 4) { return Pair ? (alias || ext) : !alias; }
    return false;
}
template <bool Pair, typename T, typename F>
auto try_type(std::string const& t, F& f, bool& result) -> bool
{
    if constexpr (replay_here<Pair, T>()) {
        if (t == tname<T>()) {
            result = f(T{});
            return true;
        }
    }
    return false;
}
template <bool Pair, typename F>
auto with_type(std::string const& t, F&& f) -> bool
{
    bool r = false;
    if (try_type<Pair, i8>(t, f, r) || try_type<Pair, u8>(t, f, r) || try_type<Pair, i16>(t, f, r) || try_type<Pair, u16>(t, f, r) || try_type<Pair, i32>(t, f, r) || try_type<Pair, u32>(t, f, r) || try_type<Pair, i64>(t, f, r)
        || try_type<Pair, u64>(t, f, r)) {
        return r;
    }
#if C14_PART == 0 || C14_PART == 4
    if (try_type<Pair, ull>(t, f, r) || try_type<Pair, ll>(t, f, r)) { return r; }
    if constexpr (!Pair) { // the two-type functions (cmp_*, in_range, saturate_cast) only accept the standard integer types
        if (try_type<false, char>(t, f, r) || try_type<false, char8_t>(t, f, r) || try_type<false, char16_t>(t, f, r) || try_type<false, char32_t>(t, f, r) || try_type<false, wchar_t>(t, f, r)) { return r; }
    }
#endif
    return false;
}
auto replay_bit_template(std::string const& t, u64 a, u64 b) -> bool
{
    (void)t;
    (void)a;
    (void)b;
#if C14_PART == 0 || C14_PART == 2
    if (t == "u8") { return run_bit_tpl<u8>(static_cast<u8>(a), static_cast<unsigned>(b)), true; }
    if (t == "u16") { return run_bit_tpl<u16>(static_cast<u16>(a), static_cast<unsigned>(b)), true; }
    if (t == "u32") { return run_bit_tpl<u32>(static_cast<u32>(a), static_cast<unsigned>(b)), true; }
    if (t == "u64") { return run_bit_tpl<u64>(static_cast<u64>(a), static_cast<unsigned>(b)), true; }
#endif
#if C14_PART == 0 || C14_PART == 4
    if (t == "ull") { return run_bit_tpl<ull>(static_cast<ull>(a), static_cast<unsigned>(b)), true; }
#endif
    return false;
}

} // namespace

void vf_run(vf::Ctx& c)
{
    std::uint64_t work = 0;
#if C14_PART == 0 || C14_PART == 1
    narrow8<i8>(c, work);
    narrow8<u8>(c, work);
    narrow_char(c, work);
    narrow16<i16>(c, work);
    narrow16<u16>(c, work);
#endif
#if C14_PART == 0 || C14_PART == 2
    wide<i32>(c, work);
    wide<u32>(c, work);
    wide<i64>(c, work);
    wide<u64>(c, work);
    bit_tpl<u8>(c, work);
    bit_tpl<u16>(c, work);
    bit_tpl<u32>(c, work);
    bit_tpl<u64>(c, work);
    ipow_tpl<2>(c, work);
    ipow_tpl<3>(c, work);
    ipow_tpl<-2>(c, work);
    ipow_tpl<10>(c, work);
    ipow_tpl<2U>(c, work);
    ipow_tpl<7U>(c, work);
    ipow_tpl<i64{2}>(c, work);
    ipow_tpl<i64{-3}>(c, work);
    ipow_tpl<u64{2}>(c, work);
    ipow_tpl<u64{10}>(c, work);
    ipow_tpl<i16{2}>(c, work);
    ipow_tpl<u8{2}>(c, work);
    popcount_constexpr(c, work);
    ce_all<u8>(c, work);
    ce_all<i8>(c, work);
    ce_all<u16>(c, work);
    ce_all<i16>(c, work);
    ce_all<u32>(c, work);
    ce_all<i32>(c, work);
    ce_all<u64>(c, work);
    ce_all<i64>(c, work);
    ce_all<ull>(c, work);
    ce_all<ll>(c, work);
#endif
#if C14_PART == 0 || C14_PART == 5
    pairs_with_all<i8>(c, work);
    pairs_with_all<u8>(c, work);
    pairs_with_all<i16>(c, work);
    pairs_with_all<u16>(c, work);
    pairs_with_all<i32>(c, work);
    pairs_with_all<u32>(c, work);
    pairs_with_all<i64>(c, work);
    pairs_with_all<u64>(c, work);
#endif
#if C14_PART == 0 || C14_PART == 3
    {
        // 10^6 (quick) / 10^8 (thorough) random pairs in total over all shards and the four wide types
        std::uint64_t const total = c.thorough() ? 100000000ULL : 1000000ULL;
        std::uint64_t const per   = total / static_cast<std::uint64_t>(c.nshards) / 4;
        vf::Rng r(c.seed);
        sweep<i32>(r, per);
        sweep<u32>(r, per);
        sweep<i64>(r, per);
        sweep<u64>(r, per);
        vf::count("sweep.random_pairs", per * 4);
    }
#endif
#if C14_PART == 0 || C14_PART == 4
    wide<ull>(c, work);
    wide<ll>(c, work);
    bit_tpl<ull>(c, work);
    ipow_tpl<ull{2}>(c, work);
    ipow_tpl<ull{10}>(c, work);
    ipow_tpl<ll{2}>(c, work);
    ipow_tpl<ll{-3}>(c, work);
    pairs_of_other_type<ull>(c, work);
    pairs_of_other_type<ll>(c, work);
    pairs<ull, ll>(c, work);
    pairs<ll, ull>(c, work);
    pairs<ull, ull>(c, work);
    pairs<ll, ll>(c, work);
    wide<char>(c, work);
    wide<char8_t>(c, work);
    wide<char16_t>(c, work);
    wide<char32_t>(c, work);
    wide<wchar_t>(c, work);
    all_values_unary<char>(c, work);
    all_values_unary<char8_t>(c, work);
    all_values_unary<char16_t>(c, work);
    bool_byteswap(c, work);
    {
        std::uint64_t const per = (c.thorough() ? 4000000ULL : 100000ULL) / static_cast<std::uint64_t>(c.nshards) / 2;
        vf::Rng r(c.seed ^ 0x5A5A5A5AULL);
        sweep<ull>(r, per);
        sweep<ll>(r, per);
        vf::count("sweep.random_pairs", per * 2);
    }
#endif
    flush_counters();
}

std::string vf_replay(std::string const& sub, std::string const& cs)
{
    (void)sub;
    char fnname[64] = {0}, ty[64] = {0}, sa[64] = {0}, sb[64] = {0};
    if (std::sscanf(cs.c_str(), "%63s %63s %63s %63s", fnname, ty, sa, sb) != 4) { return "unparseable case string"; }
    int fn = -1;
    for (int f = 0; f < F_COUNT; ++f) {
        if (std::string(fnname) == FN[f]) { fn = f; }
    }
    if (fn < 0) { return "unknown function in case string"; }
    u64 const a = sa[0] == '-' ? static_cast<u64>(std::strtoll(sa, nullptr, 10)) : std::strtoull(sa, nullptr, 10);
    u64 const b = sb[0] == '-' ? static_cast<u64>(std::strtoll(sb, nullptr, 10)) : std::strtoull(sb, nullptr, 10);
    g_replay    = true;
    std::string t = ty;
    auto& c       = vf::ctx();
    c.shard       = 0;
    c.nshards     = 1;
    if (t == "bool") {
        g_replay           = false;
        std::uint64_t work = 0;
        bool_byteswap(c, work);
        return "";
    }
    if (fn == F_IPOW_TEMPLATE || fn == F_POPCOUNT_CONSTEXPR || (t == "char" && fn == F_HTON && C14_PART != 4)) {
        // small families: re-run them completely (a mismatch ends the process with the failing case)
        g_replay           = false;
        std::uint64_t work = 0;
        if (t == "char") {
            narrow_char(c, work);
        } else if (fn == F_POPCOUNT_CONSTEXPR) {
            popcount_constexpr(c, work);
        } else {
            ipow_tpl<ull{2}>(c, work);
            ipow_tpl<ull{10}>(c, work);
            ipow_tpl<ll{2}>(c, work);
            ipow_tpl<ll{-3}>(c, work);
            ipow_tpl<2>(c, work);
            ipow_tpl<3>(c, work);
            ipow_tpl<-2>(c, work);
            ipow_tpl<10>(c, work);
            ipow_tpl<2U>(c, work);
            ipow_tpl<7U>(c, work);
            ipow_tpl<i64{2}>(c, work);
            ipow_tpl<i64{-3}>(c, work);
            ipow_tpl<u64{2}>(c, work);
            ipow_tpl<u64{10}>(c, work);
            ipow_tpl<i16{2}>(c, work);
            ipow_tpl<u8{2}>(c, work);
        }
        return "";
    }
    if (fn == F_CONSTANT_EVALUATED) {
#if C14_PART == 0 || C14_PART == 2
        auto const slash = t.find('/');
        if (slash == std::string::npos) { return "unparseable type/function in case string"; }
        std::string const tn = t.substr(0, slash), fname = t.substr(slash + 1);
        g_replay    = false; // a mismatch ends the process with the failing case
        g_ce_filter = true;
        g_ce_a      = a;
        g_ce_b      = b;
        auto const all = std::make_integer_sequence<int, CE_COUNT>{};
        bool ok        = false;
        if (tn == "u8") { ok = ce_replay_fn<u8>(fname, all); }
        if (tn == "i8") { ok = ce_replay_fn<i8>(fname, all); }
        if (tn == "u16") { ok = ce_replay_fn<u16>(fname, all); }
        if (tn == "i16") { ok = ce_replay_fn<i16>(fname, all); }
        if (tn == "u32") { ok = ce_replay_fn<u32>(fname, all); }
        if (tn == "i32") { ok = ce_replay_fn<i32>(fname, all); }
        if (tn == "u64") { ok = ce_replay_fn<u64>(fname, all); }
        if (tn == "i64") { ok = ce_replay_fn<i64>(fname, all); }
        if (tn == "ull") { ok = ce_replay_fn<ull>(fname, all); }
        if (tn == "ll") { ok = ce_replay_fn<ll>(fname, all); }
        return ok ? "" : "unknown type or function in case string";
#else
        return "constant-evaluated cases are replayed by the C14_wide harness";
#endif
    }
    auto const comma = t.find(',');
    bool known       = false;
    if (fn == F_BIT_TEMPLATE) {
        known = replay_bit_template(t, a, b);
    } else if (comma == std::string::npos) {
        known = with_type<false>(t, [&](auto tag) { return replay_single<decltype(tag)>(static_cast<Fn>(fn), a, b); });
    } else {
        std::string const t1 = t.substr(0, comma), t2 = t.substr(comma + 1);
        known = with_type<true>(t1, [&](auto tag) { return replay_pair1<decltype(tag)>(static_cast<Fn>(fn), t2, a, b); });
    }
    if (!known) { return "unknown type in case string"; }
    return g_replay_detail;
}
