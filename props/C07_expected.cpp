// C07 (expected part) — etl::expected tracks the same has_value flag / value / error as std::expected would.
// Engines: E2 exhaustive (from-state, to-state) x op x query enumeration, E1 rapidcheck histories (<= 25 ops, shrinking).
// Oracle: std::expected needs C++23 (libstdc++ 12 in C++20 mode has none), so the reference is the hand-written model
// RefExp {bool has; int v; int e;} below whose operations are transcribed from [expected.object]: default = value-init T,
// in_place / unexpect construction, copy / move (has_value of the source unchanged), emplace, swap,
// value_or = has ? v : d, and_then(f) = has ? f(v) : unexpect(e), or_else(f) = has ? in_place(v) : f(e).
// Masked as unspecified: the value of a moved-from NonTriv value or MErr error (the flag and trivially copyable values /
// errors are specified).  After every monadic call on an lvalue / const lvalue the source must be unchanged (std copies).
// An rvalue call that copies where std moves is not reported: the moved-from payload is masked, so both are accepted.
//
// Catalogue (probed with small test compiles against this tree, g++ 12 -std=c++20):
//   exist + checked here : expected(), expected(in_place, v), expected(unexpect, e), copy / move ctor, copy / move / self
//        assignment (implicit, through variant<T,E>), emplace(v), emplace(), etl::swap / ADL swap (generic 3-move swap),
//        has_value / operator bool, operator* (&, const&, &&, const&&), operator->, error() (&, const&, &&, const&&),
//        value_or (const&, &&), and_then (&, const&, &&, const&&), or_else (&, const&, &&, const&&);
//        unexpected<E>: unexpected(E), unexpected(in_place, args), CTAD, copy / move / assignment, error() (4 forms),
//        ==, != (also unexpected<int> x unexpected<long>), swap member, ADL swap, etl::swap.
//   do NOT exist / do not compile on this tree (not part of the check): expected(U&&) value construction,
//        expected(unexpected<G>), operator=(U&&), operator=(unexpected<G>), value(), error_or, transform, transform_error,
//        swap member, operator== (expected x expected, x value, x unexpected), expected<void,E>;
//        and_then on an rvalue expected cannot be called with a visitor taking T&& (the && overload passes an lvalue,
//        the const& overload passes T const&&) - only visitors that accept every value category are usable, which is
//        what the check uses (value categories passed to f are not compared).
#include <etl/expected.hpp>
#include <etl/optional.hpp>
#include <etl/utility.hpp>
#include <etl/variant.hpp>

#include "rc.hpp"
#include "tracked.hpp"

#include <limits>
#include <optional>
#include <utility>
#include <variant>

namespace {

using vf::OpsCase;
using vf::RawOp;
namespace lt = vf::lt;
using TCM   = lt::TCM;

struct Err { // error type: distinct from every value type, no implicit conversions
    int code{0};
    explicit Err(int c) noexcept : code(c) { }
    friend auto operator==(Err a, Err b) noexcept -> bool { return a.code == b.code; }
};
struct MErr { // error type whose move constructor visibly modifies its source (payload becomes lt::moved_value) and whose
              // lifetime is tracked: an lvalue monadic call that moves the error out of its source is observable
    TCM c;
    explicit MErr(int v) noexcept : c(v) { }
    friend auto operator==(MErr const& a, MErr const& b) noexcept -> bool { return a.c.get() == b.c.get(); }
};
inline auto ecode(Err const& e) -> int { return e.code; }
inline auto ecode(MErr const& e) -> int { return e.c.get(); }
inline auto ecode(TCM const& e) -> int { return e.get(); } // expected<NonTriv,NonTriv>: value and error type coincide

inline auto val(int x) -> int { return x; }
inline auto val(long x) -> int { return static_cast<int>(x); }
inline auto val(TCM const& x) -> int { return x.get(); }

template <typename O>
struct Slot { // in-place storage so that constructor forms build X / Y directly (no extra assignment)
    alignas(O) unsigned char buf[sizeof(O)];
    O* p{nullptr};
    template <typename... A>
    auto make(A&&... a) -> O&
    {
        if (p != nullptr) { p->~O(); }
        p = ::new (static_cast<void*>(buf)) O(std::forward<A>(a)...);
        return *p;
    }
    Slot()                               = default;
    Slot(Slot const&)                    = delete;
    auto operator=(Slot const&) -> Slot& = delete;
    ~Slot()
    {
        if (p != nullptr) { p->~O(); }
    }
};

// ------------------------------------------------------------------ reference model of std::expected<T,E> (values as int)
struct RefExp {
    bool has{true};
    int v{0}; // meaningful iff has
    int e{0}; // meaningful iff !has
    static auto in_place(int x) -> RefExp { return RefExp{true, x, 0}; }
    static auto unexpect(int x) -> RefExp { return RefExp{false, 0, x}; }
    void emplace(int x) { has = true, v = x, e = 0; }
    void swap(RefExp& o) { std::swap(*this, o); }
    [[nodiscard]] auto value_or(int d) const -> int { return has ? v : d; }
    template <typename F>
    [[nodiscard]] auto and_then(F f) const -> RefExp
    {
        return has ? f(v) : unexpect(e);
    }
    template <typename F>
    [[nodiscard]] auto or_else(F f) const -> RefExp
    {
        return has ? in_place(v) : f(e);
    }
};

constexpr int NVAL = 4;
auto b2s(bool b) -> char const* { return b ? "true" : "false"; }

enum Code : std::uint32_t {
    C_DEFAULT, C_INPLACE, C_INPLACE_L, C_UNEXPECT, C_UNEXPECT_L, C_COPY, C_MOVE, A_COPY, A_MOVE, A_SELF, EMPLACE, EMPLACE_DEFAULT, SWAP_FREE, SWAP_SELF,
    WRITE_THROUGH, Q_VALUE_OR_RV, Q_OR_ELSE_RV,
    Q_DEREF, Q_ERROR, Q_VALUE_OR, Q_AND_THEN, Q_OR_ELSE, Q_UNEXPECTED, OBSERVE,
    NCODES
};
constexpr std::uint32_t FIRST_QUERY = Q_VALUE_OR_RV;
char const* const code_names[] = {"expected()", "expected(in_place,v)", "expected(in_place,T const&)", "expected(unexpect,e)", "expected(unexpect,E const&)", "expected(expected const&)",
    "expected(expected&&)", "copy-assign", "move-assign", "self copy-assign", "emplace(v)", "emplace()", "swap(x,y)", "swap(x,x)", "*x = v / error() = e", "move(x).value_or", "move(x).or_else",
    "operator*/->", "error()", "value_or", "and_then", "or_else", "unexpected<E>", "observe"};

template <typename T, typename E>
struct Exp {
    using O = etl::expected<T, E>;
    static constexpr bool tval    = std::is_same_v<T, TCM>;  // moving the value is visible in its source
    static constexpr bool terr    = std::is_same_v<E, MErr> || std::is_same_v<E, TCM>; // moving the error is visible in its source
    static constexpr bool tracked = tval || terr;

    struct M {
        RefExp r;
        bool masked{false};  // value is a moved-from NonTriv
        bool emasked{false}; // error is a moved-from MErr
        [[nodiscard]] auto vmasked() const -> bool { return r.has && masked; }
        [[nodiscard]] auto errmasked() const -> bool { return !r.has && emasked; }
    };
    static auto compare(char const* name, O const& x, M const& m) -> std::string
    {
        if (x.has_value() != m.r.has) { return std::string(name) + ": has_value() is " + b2s(x.has_value()) + ", reference says " + b2s(m.r.has); }
        if (static_cast<bool>(x) != m.r.has) { return std::string(name) + ": operator bool differs from has_value()"; }
        if (m.r.has) {
            if (x.operator->() == nullptr) { return std::string(name) + ": operator-> is null although has_value()"; }
            if (!m.masked && val(*x) != m.r.v) { return std::string(name) + ": value is " + std::to_string(val(*x)) + ", reference " + std::to_string(m.r.v); }
        } else {
            if (!m.emasked && ecode(x.error()) != m.r.e) { return std::string(name) + ": error is " + std::to_string(ecode(x.error())) + ", reference " + std::to_string(m.r.e); }
        }
        return "";
    }

    static auto run(OpsCase const& k, int stats) -> std::string
    {
        lt::reset();
        std::string err;
        bool nt = false, transitioned = false, q_masked = false, chain_on_error = false, chain_on_value = false;
        {
            struct Sandwich {
                std::uint64_t pre{0xA5A5A5A5A5A5A5A5ULL};
                Slot<O> a;
                std::uint64_t mid{0x5A5A5A5A5A5A5A5AULL};
                Slot<O> b;
                std::uint64_t post{0xC3C3C3C3C3C3C3C3ULL};
            } sw;
            sw.a.make();
            sw.b.make();
            M ma{}, mb{};
            for (auto const& op : k.ops) {
                bool tb = (op.c & 1U) != 0;
                Slot<O>& sx = tb ? sw.b : sw.a;
                Slot<O>& sy = tb ? sw.a : sw.b;
                M& mx     = tb ? mb : ma;
                M& my     = tb ? ma : mb;
                int v     = static_cast<int>((op.c >> 1) % NVAL);
                auto code = op.code % NCODES;
                bool xh0 = mx.r.has, yh0 = my.r.has;
                if (code == Q_DEREF && !mx.r.has) { code = Q_ERROR; }
                else if (code == Q_ERROR && mx.r.has) { code = Q_DEREF; }
                if (stats > 1) { vf::count((std::string("op.") + code_names[code]).c_str()); }
                bool is_query = code >= FIRST_QUERY && code != OBSERVE;
                if (is_query && (mx.vmasked() || mx.errmasked())) { q_masked = true; }
                O& x = *sx.p;
                O& y = *sy.p;
                auto set = [&](RefExp r) {
                    mx.r      = r;
                    mx.masked = mx.emasked = false;
                };
                // after a monadic call on an lvalue / const lvalue the source holds what it held before ([expected.object.monadic]:
                // the & and const& overloads copy value() / error() into the result)
                auto source_unchanged = [&](char const* what) -> std::string {
                    auto e = compare("source", x, mx);
                    return e.empty() ? e : std::string(what) + " modified the object it was called on: " + e;
                };
                switch (code) {
                case C_DEFAULT: sx.make(), set(RefExp{}); break;
                case C_INPLACE: sx.make(etl::in_place, v), set(RefExp::in_place(v)); break;
                case C_INPLACE_L: {
                    T t(v);
                    sx.make(etl::in_place, std::as_const(t));
                    set(RefExp::in_place(v));
                    if (val(t) != v) { err = "expected(in_place, T const&) modified its argument"; }
                    break;
                }
                case C_UNEXPECT: sx.make(etl::unexpect, v), set(RefExp::unexpect(v)); break;
                case C_UNEXPECT_L: {
                    E e(v);
                    sx.make(etl::unexpect, std::as_const(e));
                    set(RefExp::unexpect(v));
                    break;
                }
                case C_COPY: ((op.b & 1U) != 0 ? sx.make(y) : sx.make(std::as_const(y))), mx = my; break;
                case C_MOVE: {
                    sx.make(std::move(y));
                    mx        = my;
                    my.masked  = tval && my.r.has; // has_value() of the source is unchanged, a NonTriv value is moved-from
                    my.emasked = terr && !my.r.has; // ... and so is a moved-from MErr error
                    break;
                }
                case A_COPY: ((op.b & 1U) != 0 ? (x = y) : (x = std::as_const(y))), mx = my; break;
                case A_MOVE: {
                    x         = std::move(y);
                    mx        = my;
                    my.masked  = tval && my.r.has;
                    my.emasked = terr && !my.r.has;
                    break;
                }
                case A_SELF: {
                    O const& alias = x;
                    x              = alias;
                    break;
                }
                case EMPLACE: {
                    T* r = nullptr;
                    if ((op.b & 1U) != 0) {
                        T t(v);
                        r = &x.emplace(std::as_const(t));
                    } else {
                        r = &x.emplace(v);
                    }
                    mx.r.emplace(v);
                    mx.masked = mx.emasked = false;
                    if (r != x.operator->()) { err = "emplace returned a reference that is not the contained value"; }
                    break;
                }
                case EMPLACE_DEFAULT: {
                    x.emplace();
                    mx.r.emplace(0);
                    mx.masked = mx.emasked = false;
                    break;
                }
                case SWAP_FREE: {
                    if ((op.b & 1U) != 0) {
                        etl::swap(x, y);
                    } else {
                        using etl::swap;
                        swap(x, y);
                    }
                    std::swap(mx, my);
                    break;
                }
                case SWAP_SELF: etl::swap(x, x); break; // std::swap(e, e) leaves e unchanged
                case WRITE_THROUGH: {
                    if (mx.r.has) {
                        if ((op.b & 1U) != 0) {
                            *x.operator->() = T(v);
                        } else {
                            *x = T(v);
                        }
                        mx.r.v    = v;
                        mx.masked = false;
                    } else {
                        x.error()  = E(v);
                        mx.r.e     = v;
                        mx.emasked = false;
                    }
                    break;
                }
                case Q_DEREF: {
                    T& r1        = *x;
                    T const& r2  = *std::as_const(x);
                    T&& r3       = *std::move(x); // binds only: nothing is moved
                    T const&& r4 = *std::move(std::as_const(x));
                    T* p1        = x.operator->();
                    T const* p2  = std::as_const(x).operator->();
                    if (&r2 != &r1 || &r3 != &r1 || &r4 != &r1 || p1 != &r1 || p2 != &r1) {
                        err = "operator* (4 forms) / operator-> do not refer to one object";
                    } else if (!mx.masked && val(r2) != mx.r.v) {
                        err = "*x is " + std::to_string(val(r2)) + ", reference " + std::to_string(mx.r.v);
                    }
                    break;
                }
                case Q_ERROR: {
                    E& r1        = x.error();
                    E const& r2  = std::as_const(x).error();
                    E&& r3       = std::move(x).error(); // binds only
                    E const&& r4 = std::move(std::as_const(x)).error();
                    if (&r2 != &r1 || &r3 != &r1 || &r4 != &r1) {
                        err = "error() (4 forms) do not refer to one object";
                    } else if (!mx.emasked && ecode(r2) != mx.r.e) {
                        err = "error() is " + std::to_string(ecode(r2)) + ", reference " + std::to_string(mx.r.e);
                    }
                    break;
                }
                case Q_VALUE_OR:
                case Q_VALUE_OR_RV: {
                    int d    = static_cast<int>(op.b % NVAL) + 10;
                    int want = mx.r.value_or(d);
                    int got  = 0;
                    if (code == Q_VALUE_OR) {
                        got = (op.a & 1U) != 0 ? val(std::as_const(x).value_or(T(d))) : val(std::as_const(x).value_or(d));
                    } else {
                        got = (op.a & 1U) != 0 ? val(std::move(x).value_or(T(d))) : val(std::move(x).value_or(d));
                    }
                    if (!mx.vmasked() && got != want) { err = "value_or(" + std::to_string(d) + ") is " + std::to_string(got) + ", reference " + std::to_string(want); }
                    if (code == Q_VALUE_OR_RV && mx.r.has && tval) { mx.masked = true; } // value was moved out
                    if (code == Q_VALUE_OR && err.empty()) { err = source_unchanged("value_or() const&"); }
                    break;
                }
                case Q_AND_THEN: {
                    // f: even value -> expected<long,Err>(in_place, 10v+1); odd value -> (unexpect, Err(v+100))
                    int calls = 0, seen = -1;
                    auto f = [&](auto&& a) -> etl::expected<long, E> {
                        ++calls;
                        seen = val(a);
                        if (seen % 2 == 0) { return etl::expected<long, E>(etl::in_place, seen * 10L + 1); }
                        return etl::expected<long, E>(etl::unexpect, seen + 100);
                    };
                    auto fm = [](int a) { return a % 2 == 0 ? RefExp::in_place(a * 10 + 1) : RefExp::unexpect(a + 100); };
                    auto check = [&](etl::expected<long, E> const& r) {
                        if (calls != (mx.r.has ? 1 : 0)) {
                            err = "and_then called f " + std::to_string(calls) + " times although has_value() is " + b2s(mx.r.has);
                            return;
                        }
                        if (mx.vmasked()) { return; }
                        if (mx.errmasked()) {
                            if (r.has_value()) { err = "and_then on an error returned a value"; }
                            return;
                        }
                        auto want = mx.r.and_then(fm);
                        if (mx.r.has && seen != mx.r.v) {
                            err = "and_then passed " + std::to_string(seen) + " to f, the value is " + std::to_string(mx.r.v);
                        } else if (r.has_value() != want.has) {
                            err = std::string("and_then result has_value() is ") + b2s(r.has_value()) + ", reference " + b2s(want.has);
                        } else if (want.has ? (*r != want.v) : (ecode(r.error()) != want.e)) {
                            err = "and_then result holds " + std::to_string(want.has ? static_cast<int>(*r) : ecode(r.error())) + ", reference " + std::to_string(want.has ? want.v : want.e);
                        }
                    };
                    if (mx.r.has) { chain_on_value = true; } else { chain_on_error = true; }
                    switch (op.b % 4) {
                    // lvalue / const lvalue: std copies the error into the result, the source must be unchanged
                    case 0: check(x.and_then(f)), err = err.empty() ? source_unchanged("and_then() &") : err; break;
                    case 1: check(std::as_const(x).and_then(f)), err = err.empty() ? source_unchanged("and_then() const&") : err; break;
                    case 2: {
                        check(std::move(x).and_then(f)); // f takes auto&&: the value is not moved; std moves the error into the result
                        if (!mx.r.has && terr) { mx.emasked = true; }
                        break;
                    }
                    default: check(std::move(std::as_const(x)).and_then(f)); break;
                    }
                    break;
                }
                case Q_OR_ELSE:
                case Q_OR_ELSE_RV: {
                    // f: even error -> expected<T,long>(in_place, e+50); odd error -> (unexpect, 3e)
                    using G   = etl::expected<T, long>;
                    int calls = 0, seen = -1;
                    auto f = [&](auto&& e) -> G {
                        ++calls;
                        seen = ecode(e);
                        if (seen % 2 == 0) { return G(etl::in_place, seen + 50); }
                        return G(etl::unexpect, seen * 3L);
                    };
                    auto fm = [](int e) { return e % 2 == 0 ? RefExp::in_place(e + 50) : RefExp::unexpect(e * 3); };
                    auto check = [&](G const& r) {
                        if (calls != (mx.r.has ? 0 : 1)) {
                            err = "or_else called f " + std::to_string(calls) + " times although has_value() is " + b2s(mx.r.has);
                            return;
                        }
                        if (mx.errmasked()) { return; } // f saw a moved-from error: its answer is unspecified
                        auto want = mx.r.or_else(fm);
                        if (!mx.r.has && seen != mx.r.e) {
                            err = "or_else passed error " + std::to_string(seen) + " to f, the error is " + std::to_string(mx.r.e);
                        } else if (r.has_value() != want.has) {
                            err = std::string("or_else result has_value() is ") + b2s(r.has_value()) + ", reference " + b2s(want.has);
                        } else if (want.has) {
                            if (!mx.vmasked() && val(*r) != want.v) { err = "or_else result holds " + std::to_string(val(*r)) + ", reference " + std::to_string(want.v); }
                        } else if (r.error() != want.e) {
                            err = "or_else result error is " + std::to_string(r.error()) + ", reference " + std::to_string(want.e);
                        }
                    };
                    if (mx.r.has) { chain_on_value = true; } else { chain_on_error = true; }
                    if (code == Q_OR_ELSE) {
                        // lvalue / const lvalue: std copies the value into the result, the source must be unchanged
                        if ((op.b & 1U) != 0) {
                            check(x.or_else(f));
                            if (err.empty()) { err = source_unchanged("or_else() &"); }
                        } else {
                            check(std::as_const(x).or_else(f));
                            if (err.empty()) { err = source_unchanged("or_else() const&"); }
                        }
                    } else {
                        if ((op.b & 1U) != 0) {
                            check(std::move(x).or_else(f));
                        } else {
                            check(std::move(std::as_const(x)).or_else(f));
                        }
                        if (mx.r.has && tval && (op.b & 1U) != 0) { mx.masked = true; } // std moves the value into the result
                    }
                    break;
                }
                case Q_UNEXPECTED: {
                    // the unexpected<E> wrapper on its own
                    int w = static_cast<int>(op.b % NVAL);
                    etl::unexpected<Err> a{Err(v)};
                    etl::unexpected<Err> b(etl::in_place, w);
                    etl::unexpected c{Err(v)};
                    static_assert(std::is_same_v<decltype(c), etl::unexpected<Err>>);
                    Err& r1        = a.error();
                    Err const& r2  = std::as_const(a).error();
                    Err&& r3       = std::move(a).error();
                    Err const&& r4 = std::move(std::as_const(a)).error();
                    if (&r2 != &r1 || &r3 != &r1 || &r4 != &r1 || r1.code != v || b.error().code != w || c.error().code != v) { err = "unexpected<E>: construction / error() wrong"; }
                    if ((a == b) != (v == w) || (a != b) != (v != w) || !(a == c)) { err = "unexpected<E>: operator== wrong"; }
                    if ((etl::unexpected<int>(v) == etl::unexpected<long>(static_cast<long>(w))) != (v == w)) { err = "unexpected<int> == unexpected<long> wrong"; }
                    {
                        // unordered payload: == must forward to == of the errors (NaN == NaN is false, NaN != NaN is true)
                        double const nan = std::numeric_limits<double>::quiet_NaN();
                        etl::unexpected<double> un(nan), u1(1.0);
                        if ((un == un) || !(un != un) || (un == u1) || !(un != u1) || !(u1 == u1) || (u1 != u1)) { err = "unexpected<double>: operator== / != wrong for NaN"; }
                    }
                    switch (op.a % 3) {
                    case 0: a.swap(b); break;
                    case 1: swap(a, b); break;
                    default: etl::swap(a, b); break;
                    }
                    if (a.error().code != w || b.error().code != v) { err = "unexpected<E>: swap wrong"; }
                    etl::unexpected<Err> d(std::as_const(a));
                    etl::unexpected<Err> e(std::move(b));
                    a = std::as_const(e);
                    c = std::move(d);
                    if (a.error().code != v || c.error().code != w || e.error().code != v) { err = "unexpected<E>: copy / move / assignment wrong"; }
                    break;
                }
                case OBSERVE:
                default: break;
                }
                if (mx.r.has != xh0 || my.r.has != yh0) { transitioned = true; }
                if (is_query && transitioned) { nt = true; }
                if (err.empty()) { err = compare(tb ? "B" : "A", *sx.p, mx); }
                if (err.empty()) { err = compare(tb ? "A" : "B", *sy.p, my); }
                if (err.empty() && (sw.pre != 0xA5A5A5A5A5A5A5A5ULL || sw.mid != 0x5A5A5A5A5A5A5A5AULL || sw.post != 0xC3C3C3C3C3C3C3C3ULL)) { err = "canary next to the expected was overwritten"; }
                if (err.empty() && tracked && !lt::violation().empty()) { err = "lifetime: " + lt::violation(); }
                if (!err.empty()) {
                    err = std::string("after ") + code_names[code] + ": " + err;
                    break;
                }
            }
        }
        if (err.empty() && tracked) { err = lt::check_empty(); }
        if (stats > 1) {
            vf::label("expected.hist.transition_then_query", nt);
            vf::label("expected.hist.query_touches_moved_from", q_masked);
            vf::label("expected.hist.and_then_or_else_on_error", chain_on_error);
            vf::label("expected.hist.and_then_or_else_on_value", chain_on_value);
        }
        if (stats > 0 && nt) {
            if (stats > 1) {
                vf::nontrivial(vf::digest(k));
            } else {
                vf::nontrivial_count();
            }
        }
        return err;
    }
};

// ================================================================== special-member matrix of the element type
// Element types mixing {trivial, user-provided, deleted} copy / move constructor, copy / move assignment and
// destructor.  Each user-provided member counts its calls and leaves a trace in the value (copies / moves / assigns carried
// along).  Copy / move construction and copy / move assignment of variant<int,Z>, optional<Z> and expected<Z,Err> are run
// for every (source holds Z?, destination holds Z?) pair - index-preserving and index-changing - and the resulting values,
// the per-member call counts during the operation and the totals after destruction are compared with std::variant /
// std::optional.  For expected<Z,Err> the oracle is std::variant<Z,Err>: for nothrow element types [expected.object.assign]
// prescribes exactly its behaviour (same state: assign; other state: destroy, then construct).
// Stateless: code = container kind, a = element type, b = (operation, source state, destination state).
struct Counts {
    int cc{0}, mc{0}, ca{0}, ma{0}, d{0}, live{0};
    auto str() const -> std::string
    {
        return "cc" + std::to_string(cc) + " mc" + std::to_string(mc) + " ca" + std::to_string(ca) + " ma" + std::to_string(ma) + " d" + std::to_string(d) + " live" + std::to_string(live);
    }
    auto minus(Counts const& o) const -> Counts { return Counts{cc - o.cc, mc - o.mc, ca - o.ca, ma - o.ma, d - o.d, live - o.live}; }
};
template <int Id>
struct ZC {
    static inline Counts c{};
};
struct ZBase {
    int v{0}, copies{0}, moves{0}, assigns{0};
    auto str() const -> std::string { return std::to_string(v) + "/c" + std::to_string(copies) + "/m" + std::to_string(moves) + "/a" + std::to_string(assigns); }
};
// Z0: user-provided copy / move constructor, defaulted (trivial) assignment, trivial destructor
struct Z0 : ZBase {
    explicit Z0(int x) noexcept : ZBase{x} { }
    Z0(Z0 const& o) noexcept : ZBase{o.v, o.copies + 1, o.moves, o.assigns} { ++ZC<0>::c.cc; }
    Z0(Z0&& o) noexcept : ZBase{o.v, o.copies, o.moves + 1, o.assigns} { ++ZC<0>::c.mc; }
    auto operator=(Z0 const&) noexcept -> Z0& = default;
    auto operator=(Z0&&) noexcept -> Z0&      = default;
};
// Z1: defaulted (trivial) constructors, user-provided copy / move assignment, trivial destructor
struct Z1 : ZBase {
    explicit Z1(int x) noexcept : ZBase{x} { }
    Z1(Z1 const&) noexcept = default;
    Z1(Z1&&) noexcept      = default;
    auto operator=(Z1 const& o) noexcept -> Z1&
    {
        v = o.v, copies = o.copies, moves = o.moves, assigns = o.assigns + 1;
        ++ZC<1>::c.ca;
        return *this;
    }
    auto operator=(Z1&& o) noexcept -> Z1&
    {
        v = o.v, copies = o.copies, moves = o.moves, assigns = o.assigns + 100;
        ++ZC<1>::c.ma;
        return *this;
    }
};
// Z2: resource handle - user-provided constructor / copy constructor / destructor (live count), defaulted copy assignment, no moves
struct Z2 : ZBase {
    explicit Z2(int x) noexcept : ZBase{x} { ++ZC<2>::c.live; }
    Z2(Z2 const& o) noexcept : ZBase{o.v, o.copies + 1, o.moves, o.assigns} { ++ZC<2>::c.cc, ++ZC<2>::c.live; }
    auto operator=(Z2 const&) noexcept -> Z2& = default;
    ~Z2() { ++ZC<2>::c.d, --ZC<2>::c.live; }
};
// Z4: move-only (deleted copies), user-provided moves, trivial destructor
struct Z4 : ZBase {
    explicit Z4(int x) noexcept : ZBase{x} { }
    Z4(Z4 const&) = delete;
    Z4(Z4&& o) noexcept : ZBase{o.v, o.copies, o.moves + 1, o.assigns} { ++ZC<4>::c.mc; }
    auto operator=(Z4 const&) -> Z4& = delete;
    auto operator=(Z4&& o) noexcept -> Z4&
    {
        v = o.v, copies = o.copies, moves = o.moves, assigns = o.assigns + 100;
        ++ZC<4>::c.ma;
        return *this;
    }
};
// Z6: everything user-provided
struct Z6 : ZBase {
    explicit Z6(int x) noexcept : ZBase{x} { ++ZC<6>::c.live; }
    Z6(Z6 const& o) noexcept : ZBase{o.v, o.copies + 1, o.moves, o.assigns} { ++ZC<6>::c.cc, ++ZC<6>::c.live; }
    Z6(Z6&& o) noexcept : ZBase{o.v, o.copies, o.moves + 1, o.assigns} { ++ZC<6>::c.mc, ++ZC<6>::c.live; }
    auto operator=(Z6 const& o) noexcept -> Z6&
    {
        v = o.v, copies = o.copies, moves = o.moves, assigns = o.assigns + 1;
        ++ZC<6>::c.ca;
        return *this;
    }
    auto operator=(Z6&& o) noexcept -> Z6&
    {
        v = o.v, copies = o.copies, moves = o.moves, assigns = o.assigns + 100;
        ++ZC<6>::c.ma;
        return *this;
    }
    ~Z6() { ++ZC<6>::c.d, --ZC<6>::c.live; }
};

enum ZKind : std::uint32_t { ZK_VARIANT, ZK_OPTIONAL, ZK_EXPECTED, ZK_N };
char const* const zkind_names[] = {"variant<int,Z>", "optional<Z>", "expected<Z,Err>"};
char const* const zoo_names[]   = {"Z0 user ctors + trivial assignment", "Z1 trivial ctors + user assignment", "Z2 handle: user copy ctor + dtor, defaulted assignment, no moves", "Z4 move-only", "Z6 all user-provided"};
char const* const zop_names[]   = {"copy-construct", "move-construct", "copy-assign", "move-assign"};

struct Zoo {
    static constexpr std::uint32_t NZ = 5, NB = 16;
    // one scenario: returns a transcript of states and call counts
    template <int Id, typename Mk, typename Show>
    static auto scenario(std::uint32_t b, Mk mk, Show show) -> std::string
    {
        using C       = decltype(mk(true));
        auto zop      = (b / 4) % 4;
        bool from_has = (b & 2U) != 0, to_has = (b & 1U) != 0;
        ZC<Id>::c     = Counts{};
        std::string t;
        {
            C src = mk(from_has);
            t += "src built [" + ZC<Id>::c.str() + "] ";
            // one shared tail for the four operations (keeps the instantiated code small)
            Counts c0{};
            auto fin = [&](C const& dst) { t += "dst=" + show(dst) + " src=" + show(std::as_const(src)) + " during [" + ZC<Id>::c.minus(c0).str() + "]"; };
            switch (zop) {
            case 0:
                if constexpr (std::is_copy_constructible_v<C>) {
                    c0 = ZC<Id>::c;
                    C dst(std::as_const(src));
                    fin(dst);
                } else {
                    t += "not copy constructible";
                }
                break;
            case 1:
                if constexpr (std::is_move_constructible_v<C>) {
                    c0 = ZC<Id>::c;
                    C dst(std::move(src));
                    fin(dst);
                } else {
                    t += "not move constructible";
                }
                break;
            case 2:
                if constexpr (std::is_copy_assignable_v<C>) {
                    C dst = mk(to_has);
                    c0    = ZC<Id>::c;
                    dst   = std::as_const(src);
                    fin(dst);
                } else {
                    t += "not copy assignable";
                }
                break;
            default:
                if constexpr (std::is_move_assignable_v<C>) {
                    C dst = mk(to_has);
                    c0    = ZC<Id>::c;
                    dst   = std::move(src);
                    fin(dst);
                } else {
                    t += "not move assignable";
                }
                break;
            }
        }
        return t + " after destruction [" + ZC<Id>::c.str() + "]";
    }
    // WithExpected: also run the expected<Z,Err> container (only for three element types: compile time)
    template <int Id, typename Z, bool WithExpected>
    static auto both(std::uint32_t kind, std::uint32_t b, std::string& te, std::string& ts) -> void
    {
        switch (kind % ZK_N) {
        case ZK_VARIANT: {
            auto eshow = [](auto const& x) { return x.index() == 1 ? "Z " + etl::get_if<1>(&x)->str() : std::string("int"); };
            auto sshow = [](auto const& x) { return x.index() == 1 ? "Z " + std::get_if<1>(&x)->str() : std::string("int"); };
            te = scenario<Id>(b, [](bool z) { return z ? etl::variant<int, Z>(etl::in_place_index<1>, 5) : etl::variant<int, Z>(etl::in_place_index<0>, 7); }, eshow);
            ts = scenario<Id>(b, [](bool z) { return z ? std::variant<int, Z>(std::in_place_index<1>, 5) : std::variant<int, Z>(std::in_place_index<0>, 7); }, sshow);
            break;
        }
        case ZK_OPTIONAL: {
            auto show = [](auto const& x) { return x.has_value() ? "Z " + (*x).str() : std::string("empty"); };
            te = scenario<Id>(b, [](bool z) { return z ? etl::optional<Z>(etl::in_place, 5) : etl::optional<Z>(); }, show);
            ts = scenario<Id>(b, [](bool z) { return z ? std::optional<Z>(std::in_place, 5) : std::optional<Z>(); }, show);
            break;
        }
        default: {
            if constexpr (WithExpected) {
                te = scenario<Id>(b, [](bool z) { return z ? etl::expected<Z, Err>(etl::in_place, 5) : etl::expected<Z, Err>(etl::unexpect, 3); },
                    [](auto const& x) { return x.has_value() ? "Z " + (*x).str() : "error " + std::to_string(x.error().code); });
                ts = scenario<Id>(b, [](bool z) { return z ? std::variant<Z, Err>(std::in_place_index<0>, 5) : std::variant<Z, Err>(std::in_place_index<1>, 3); },
                    [](auto const& x) { return x.index() == 0 ? "Z " + std::get_if<0>(&x)->str() : "error " + std::to_string(std::get_if<1>(&x)->code); });
            }
            break;
        }
        }
    }
    static auto run(OpsCase const& k, int stats) -> std::string
    {
        for (auto const& op : k.ops) {
            std::string te, ts;
            auto kind = op.code % ZK_N;
            switch (op.a % NZ) {
            case 0: both<0, Z0, true>(kind, op.b, te, ts); break;
            case 1: both<1, Z1, true>(kind, op.b, te, ts); break;
            case 2: both<2, Z2, false>(kind, op.b, te, ts); break;
            case 3: both<4, Z4, false>(kind, op.b, te, ts); break;
            default: both<6, Z6, true>(kind, op.b, te, ts); break;
            }
            if (stats > 0 && ((op.b & 1U) != 0) != ((op.b & 2U) != 0)) { vf::nontrivial_count(); } // index-changing
            if (te != ts) {
                return std::string(zop_names[(op.b / 4) % 4]) + " of " + zkind_names[kind] + " with " + zoo_names[op.a % NZ] + ", source " + ((op.b & 2U) != 0 ? "holds Z" : "holds the other state") + ", destination "
                     + ((op.b & 1U) != 0 ? "holds Z" : "holds the other state") + ": etl {" + te + "} std {" + ts + "}";
            }
        }
        return "";
    }
};

// ------------------------------------------------------------------ configuration table
struct Config {
    char const* name;
    std::string (*run)(OpsCase const&, int);
    bool stateless{false}; // one op = one self-contained scenario (enumerated completely, no histories)
};
// One source, several executables: -DC07_ONLY=<i> builds only configuration i (the registry lists one harness per
// configuration so that they compile in parallel); configuration ids in case strings are the same in every build.
#if !defined(C07_ONLY) || C07_ONLY == 0
    #define C07_RUN0 &Exp<int, Err>::run
#else
    #define C07_RUN0 nullptr
#endif
#if !defined(C07_ONLY) || C07_ONLY == 1
    #define C07_RUN1 &Exp<TCM, MErr>::run
#else
    #define C07_RUN1 nullptr
#endif
#if !defined(C07_ONLY) || C07_ONLY == 2
    #define C07_RUN2 &Exp<TCM, TCM>::run
#else
    #define C07_RUN2 nullptr
#endif
#if !defined(C07_ONLY) || C07_ONLY == 3
    #define C07_RUN3 &Zoo::run
#else
    #define C07_RUN3 nullptr
#endif
Config const configs[] = {
    {"expected<int,Err>", C07_RUN0},
    {"expected<NonTriv,MErr>", C07_RUN1}, // MErr: error type with a visible (payload-resetting) move constructor
    {"expected<NonTriv,NonTriv>", C07_RUN2}, // T == E: has_value() can only follow the index, never the type
    {"special-member matrix of the element type (variant / optional / expected)", C07_RUN3, true},
};
constexpr std::uint32_t nconfigs = sizeof(configs) / sizeof(configs[0]);

auto run_case(OpsCase const& k, int stats) -> std::string
{
    auto const& cfg = configs[k.cfg % nconfigs];
    if (cfg.run == nullptr) { return ""; } // configuration not built into this executable
    auto d = cfg.run(k, stats);
    return d.empty() ? d : std::string(cfg.name) + ": " + d;
}

auto describe(OpsCase const& k) -> std::string
{
    auto const& cfg = configs[k.cfg % nconfigs];
    std::string s   = std::string(cfg.name) + " :";
    for (auto const& o : k.ops) {
        s += " " + std::string((o.c & 1U) != 0 ? "B." : "A.") + (cfg.stateless ? zkind_names[o.code % ZK_N] : code_names[o.code % NCODES]) + "[a " + std::to_string(o.a) + ",b " + std::to_string(o.b) + ",v " + std::to_string((o.c >> 1) % NVAL) + "]";
    }
    return s;
}

auto shapes(std::uint32_t code) -> std::vector<RawOp>
{
    std::vector<RawOp> out;
    auto add = [&](std::uint32_t a, std::uint32_t b, std::uint32_t v) { out.push_back(RawOp{code, a, b, v << 1}); };
    switch (code) {
    case C_INPLACE:
    case C_INPLACE_L:
    case C_UNEXPECT:
    case C_UNEXPECT_L:
        for (std::uint32_t v = 0; v < 3; ++v) { add(0, 0, v); }
        break;
    case EMPLACE:
    case WRITE_THROUGH:
        for (std::uint32_t b = 0; b < 2; ++b) {
            for (std::uint32_t v = 0; v < 3; ++v) { add(0, b, v); }
        }
        break;
    case SWAP_FREE:
    case C_COPY:
    case A_COPY: add(0, 0, 0), add(0, 1, 0); break;
    case Q_VALUE_OR:
    case Q_VALUE_OR_RV: add(0, 1, 0), add(1, 1, 0); break;
    case Q_OR_ELSE:
    case Q_OR_ELSE_RV: add(0, 0, 0), add(0, 1, 0); break;
    case Q_AND_THEN:
        for (std::uint32_t b = 0; b < 4; ++b) { add(0, b, 0); }
        break;
    case Q_UNEXPECTED:
        for (std::uint32_t a = 0; a < 3; ++a) { add(a, 0, 0), add(a, 1, 0); }
        break;
    case OBSERVE: break;
    default: add(0, 0, 0); break;
    }
    return out;
}

} // namespace

void vf_run(vf::Ctx& c)
{
    // E2: every (state of A, state of B) x op (every argument shape) x second op x query (thorough: x third op).
    // States: value 0 / 1 / 2, error 0 / 1 / 2; established with emplace or with the in_place / unexpect constructors.
    {
        std::uint64_t n = 0;
        for (std::uint32_t ci = 0; ci < nconfigs; ++ci) {
            if (configs[ci].run == nullptr) { continue; }
            if (configs[ci].stateless) {
                // every (container kind, element type, operation, source state, destination state)
                for (std::uint32_t kind = 0; kind < ZK_N; ++kind) {
                    for (std::uint32_t a = 0; a < Zoo::NZ; ++a) {
                        for (std::uint32_t b = 0; b < Zoo::NB; ++b) {
                            if (!c.mine(n++)) { continue; }
                            OpsCase k;
                            k.cfg = ci;
                            k.ops.push_back(RawOp{kind, a, b, 0});
                            vf::Flight<OpsCase> fl("enum_special_members", k);
                            vf::eval("enum_special_members");
                            auto d = run_case(k, 1);
                            if (!d.empty()) { vf::mismatch("enum_special_members", k, d); }
                        }
                    }
                }
                continue;
            }
            std::vector<RawOp> ops, queries;
            for (std::uint32_t code = 0; code < FIRST_QUERY; ++code) {
                for (auto const& o : shapes(code)) { ops.push_back(o); }
            }
            for (std::uint32_t code = FIRST_QUERY; code < NCODES; ++code) {
                if (code == Q_UNEXPECTED) { continue; } // state-independent: enumerated once below
                for (auto const& o : shapes(code)) { queries.push_back(o); }
            }
            auto exec = [&](OpsCase const& k) {
                if (!c.mine(n++)) { return; }
                vf::Flight<OpsCase> fl("enum_transitions", k);
                vf::eval("enum_transitions");
                auto d = run_case(k, 1);
                if (!d.empty()) { vf::mismatch("enum_transitions", k, d); }
            };
            auto setter = [&](std::uint32_t how, std::uint32_t state, std::uint32_t target) -> RawOp {
                if (state < 3) { return RawOp{how == 0 ? std::uint32_t{EMPLACE} : std::uint32_t{C_INPLACE}, 0, 0, (state << 1) | target}; }
                return RawOp{C_UNEXPECT, 0, 0, ((state - 3) << 1) | target};
            };
            for (std::uint32_t v = 0; v < NVAL; ++v) {
                for (std::uint32_t b = 0; b < NVAL; ++b) {
                    for (std::uint32_t a = 0; a < 3; ++a) {
                        OpsCase k;
                        k.cfg = ci;
                        k.ops.push_back(RawOp{Q_UNEXPECTED, a, b, v << 1});
                        exec(k);
                    }
                }
            }
            for (std::uint32_t how = 0; how < 2; ++how) {
                for (std::uint32_t sa = 0; sa < 6; ++sa) {
                    for (std::uint32_t sb = 0; sb < 6; ++sb) {
                        OpsCase k;
                        k.cfg = ci;
                        k.ops.push_back(setter(how, sa, 0));
                        k.ops.push_back(setter(how, sb, 1));
                        for (auto const& o : ops) {
                            k.ops.push_back(o);
                            for (auto const& q : queries) {
                                k.ops.push_back(q);
                                exec(k);
                                k.ops.pop_back();
                            }
                            for (auto const& o2 : ops) {
                                k.ops.push_back(o2);
                                if (c.thorough()) {
                                    for (auto const& q : queries) {
                                        k.ops.push_back(q);
                                        exec(k);
                                        k.ops.pop_back();
                                    }
                                } else {
                                    k.ops.push_back(RawOp{Q_VALUE_OR, 0, 1, 0});
                                    exec(k);
                                    k.ops.pop_back();
                                }
                                k.ops.pop_back();
                            }
                            k.ops.pop_back();
                        }
                    }
                }
            }
        }
    }
    // E1: random histories of <= 25 ops, every configuration
    int per_cfg = (c.thorough() ? 50000 : 3000) / std::max(1, c.nshards) + 1; // per type over all shards: quick 3k, thorough 50k
    for (std::uint32_t ci = 0; ci < nconfigs; ++ci) {
        if (configs[ci].run == nullptr || configs[ci].stateless) { continue; }
        auto gen = rc::gen::map(vf::gen_history(1, NCODES, 25), [ci](OpsCase k) {
            k.cfg = ci;
            return k;
        });
        std::string sub = std::string("histories/") + configs[ci].name;
        vf::rc_check<OpsCase>(sub.c_str(), gen, per_cfg, 100, [&](OpsCase const& k) {
            vf::eval("histories");
            auto d = run_case(k, 2);
            if (k.ops.size() >= 6) { vf::sample("histories", [&] { return describe(k); }); }
            return d;
        });
    }
}

std::string vf_replay(std::string const&, std::string const& cs)
{
    auto k = vf::parse_ops(cs);
    vf::Flight<OpsCase> fl("replay", k);
    std::fprintf(stderr, "replaying: %s\n", describe(k).c_str());
    return run_case(k, 0);
}
