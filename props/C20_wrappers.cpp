// C20 (part 3 of 4) — invoke, reference_wrapper, function_ref, bind_front and not_fn call the wrapped callable exactly once
// per call with the same arguments and value categories and return its result unchanged; copies of a wrapper call an
// equivalent target.
//
// Differential form (C20_common.hpp): every scenario template runs against etl:: and against the std:: facility named by
// the property.  The instrumented callables append to a call log: one entry per invocation with the value category /
// constness of `*this` (which operator() overload ran), and the category and value of every argument.  Outcome string
// = call log + result value + spelled-out result type; both strings must be identical.  A missing or doubled call, a
// changed argument, a changed category, a copied instead of moved argument (moved-from markers of the sources) or a
// changed result type all show up as a difference.
//
//   invoke.functor / invoke.callable / invoke.result   functor overloaded on & / const& / && / const&& invoked as each
//        category with arguments (lvalue, const lvalue, rvalue, prvalue); function, function pointer, lambdas; results by
//        reference / rvalue reference / move-only prvalue (type and identity preserved); invoke_r
//   invoke.memfn / invoke.memdata   member functions (plain, const, &, const&, &&, const&&, noexcept) and a member data
//        pointer through object (lvalue, const, rvalue, const rvalue), pointer, pointer-like, reference_wrapper, derived
//   rw.*          reference_wrapper: call (functor, function, member pointers), get / conversion, copy, rebinding, ref(ref)
//   fref.*        function_ref (oracle: std::function holding std::ref(target) — calls the referenced callable as an
//                 lvalue with forwarded arguments, which is function_ref's contract; libstdc++ 12 has no function_ref):
//                 functor / const functor / function / pointer / lambda / member pointer targets, argument forwarding,
//                 result conversion, copies keep their target when the original is re-bound
//   bind_front.*  wrapper category (& / const& / && / const&&) x bound arguments (int, moved-in TCM, copy-only) x call
//                 arguments of mixed categories; consuming callee (bound arguments are copied on lvalue calls, moved on
//                 rvalue calls); reference_wrapper bound argument; member pointer / function pointer targets; copies
//   ipf.forwarding   inplace_function<int(TCM&, TCM const&, TCM&&, TCM)> against std::function: categories seen by the target,
//                 by-value parameter copied / moved, const wrapper, move-only result (histories: C20_inplace_function.cpp)
//   *.addressof   function_ref / reference_wrapper / tie / forward_as_tuple / pair of references bound to an object whose class
//                 overloads unary operator& (returns a decoy): the call must land in the bound object (its counter moves)
//   ipf.special_targets / byvalue.copies   targets with an initializer_list constructor (direct-non-list-initialisation of the
//                 stored target, as std::function does), by-value signature parameters: copies made = std::function's
//   not_fn.*      all four wrapper categories, negated result, function / member pointers, copies
//
// EXCLUDED because it does not compile on the pinned tree (g++ 12, probed):
//   * bind_front(f) without bound arguments (tuple<> does not instantiate)
//   * bind_front(f, lvalue) — any bound argument passed as an lvalue (unwrap_ref_decay<T&> is ill-formed); bound
//     arguments are therefore always passed as rvalues (prvalue copies / std::move)
//   * function_ref<R(Args...) noexcept> (the thunk lambda is not noexcept: invalid conversion)
//   * inplace_function holding a member pointer (constructor constraint accepts it, the invoke thunk does not compile);
//     inplace_function<void(Args...)> from a callable returning non-void (thunk returns a value from a void function)
//   * stateless not_fn<f>(): its `static_assert(f != nullptr)` is not a constant expression under -fsanitize=undefined
//     (the sanitizer build implies -fno-delete-null-pointer-checks), so it cannot be instantiated in this build
//   * && / const&& calls of a bind_front wrapper whose bound argument is a reference_wrapper are left out on purpose
//     (they compile only because unwrap_ref_decay does not unwrap a prvalue reference_wrapper)
#include <etl/functional.hpp>
#include <etl/tuple.hpp>
#include <etl/utility.hpp>

#include "verif.hpp"

#include "tracked.hpp"

#include "C20_common.hpp"

#include <initializer_list>

namespace c20w { // (named: not_fn<f>() static_asserts `f != nullptr`, which is not a constant expression for an internal-linkage f)

using namespace c20;

// ------------------------------------------------------------------ call log + instrumented callables
std::string g_log;

[[gnu::noinline]] void log_call(char const* who, int id, char const* self)
{
    g_log += " call[";
    g_log += who;
    g_log += std::to_string(id);
    g_log += "](this:";
    g_log += self;
    g_log += ")";
}
[[gnu::noinline]] void log_arg(char const* c, int v)
{
    g_log += " ";
    g_log += c;
    g_log += "=";
    g_log += sv(v);
}
[[gnu::noinline]] auto finish(int result, std::string const& type) -> std::string
{
    Out o;
    o << "log:" << g_log << " | result=" << result << " type=" << type;
    return o.s;
}
[[gnu::noinline]] auto finish_s(std::string const& result, std::string const& type) -> std::string
{
    Out o;
    o << "log:" << g_log << " | result=" << result << " type=" << type;
    return o.s;
}

// result = id*1000 + 100*(number of arguments) + value of the first argument (0 if none)
template <typename... A>
auto first_val(A const&... a) -> int
{
    int v[] = {0, val_of(a)...};
    return sizeof...(A) == 0 ? 0 : v[1];
}
#define C20_LOGGER_OVERLOAD(QUAL, NAME)                                                                                 \
    template <typename... A>                                                                                           \
    auto operator()(A&&... a) QUAL->int                                                                                \
    {                                                                                                                  \
        log_call("L", id, NAME);                                                                                       \
        (log_arg(cat<A&&>(), val_of(a)), ...);                                                                         \
        return id * 1000 + 100 * static_cast<int>(sizeof...(A)) + first_val(a...);                                     \
    }
struct Logger {
    int id;
    C20_LOGGER_OVERLOAD(&, "&")
    C20_LOGGER_OVERLOAD(const&, "const&")
    C20_LOGGER_OVERLOAD(&&, "&&")
    C20_LOGGER_OVERLOAD(const&&, "const&&")
};

auto free_fn(TCM& a, TCM const& b, TCM&& c, int d) -> int
{
    log_call("free_fn", 0, "-");
    log_arg("&", val_of(a));
    log_arg("const&", val_of(b));
    log_arg("&&", val_of(c));
    log_arg("int", d);
    return 4000 + val_of(a) * 100 + val_of(b) * 10 + val_of(c) + d;
}
auto free_fn1(int d) -> int
{
    log_call("free_fn1", 0, "-");
    log_arg("int", d);
    return d + 1;
}
auto free_pred(int d) -> bool
{
    log_call("free_pred", 0, "-");
    log_arg("int", d);
    return d > 1;
}

int g_int = 41;
struct RetRef { // returns a reference: type and identity must survive the wrapper
    auto operator()() const -> int&
    {
        log_call("RetRef", 0, "const&");
        return g_int;
    }
};
struct RetRRef {
    TCM* p;
    auto operator()() const -> TCM&&
    {
        log_call("RetRRef", 0, "const&");
        return std::move(*p);
    }
};
struct RetMO { // move-only prvalue result: must arrive without a copy
    auto operator()(int v) const -> TMO
    {
        log_call("RetMO", 0, "const&");
        log_arg("int", v);
        return TMO(v);
    }
};
struct TakesRef { // typed parameter: sees the same lvalue whether the wrapper stores T& or reference_wrapper<T>
    auto operator()(TCM& r, int k) const -> int
    {
        log_call("TakesRef", 0, "const&");
        log_arg("&", val_of(r));
        log_arg("int", k);
        r = TCM(val_of(r) + 1);
        return val_of(r) * 10 + k;
    }
};
struct Consume { // takes the bound argument by value: a copy leaves the source intact, a move marks it
    auto operator()(TCM t, int k) const -> int
    {
        log_call("Consume", 0, "const&");
        log_arg("byvalue", val_of(t));
        log_arg("int", k);
        return val_of(t) * 10 + k;
    }
};

struct S {
    int v{5};
    auto m_plain(int k) -> int
    {
        log_call("m_plain", v, "non-const");
        log_arg("int", k);
        return v * 100 + k;
    }
    auto m_const(int k) const -> int
    {
        log_call("m_const", v, "const");
        log_arg("int", k);
        return v * 100 + k + 1000;
    }
    auto m_lref(int k) & -> int
    {
        log_call("m_lref", v, "&");
        log_arg("int", k);
        return v * 100 + k + 2000;
    }
    auto m_clref(int k) const& -> int
    {
        log_call("m_clref", v, "const&");
        log_arg("int", k);
        return v * 100 + k + 3000;
    }
    auto m_rref(int k) && -> int
    {
        log_call("m_rref", v, "&&");
        log_arg("int", k);
        return v * 100 + k + 4000;
    }
    auto m_crref(int k) const&& -> int
    {
        log_call("m_crref", v, "const&&");
        log_arg("int", k);
        return v * 100 + k + 5000;
    }
    auto m_noexcept(TCM&& t, TCM const& u) noexcept -> int
    {
        log_call("m_noexcept", v, "non-const");
        log_arg("&&", val_of(t));
        log_arg("const&", val_of(u));
        return v * 100 + val_of(t) + val_of(u);
    }
    auto m_ref() -> int&
    {
        log_call("m_ref", v, "non-const");
        return v;
    }
    [[nodiscard]] auto is_big() const -> bool
    {
        log_call("is_big", v, "const");
        return v > 3;
    }
    bool flag{true};
};
struct D : S {
    int extra{1};
};
struct PtrLike {
    S* p;
    auto operator*() const -> S& { return *p; }
};

void begin() { g_log.clear(); }

// ------------------------------------------------------------------ invoke
void add_invoke()
{
    // functor overloaded on all four categories x the category it is invoked as
    add_family("invoke.functor", "invoke.callable", 4, 2, []<class L>(int x, int y) {
        begin();
        Logger f{7};
        TCM a(1);
        TCM const b(2);
        TCM c(3);
        int r = 0;
        std::string t;
        if (y == 0) {
            switch (x) {
            case 0: r = L::invoke(f, a, b, std::move(c), 4); t = type_name<decltype(L::invoke(f, a, b, std::move(c), 4))>(); break;
            case 1: r = L::invoke(std::as_const(f), a, b, std::move(c), 4); break;
            case 2: r = L::invoke(std::move(f), a, b, std::move(c), 4); break;
            default: r = L::invoke(std::move(std::as_const(f)), a, b, std::move(c), 4); break;
            }
        } else {
            switch (x) {
            case 0: r = L::invoke(f); break;
            case 1: r = L::invoke(std::as_const(f)); break;
            case 2: r = L::invoke(std::move(f)); break;
            default: r = L::invoke(std::move(std::as_const(f))); break;
            }
        }
        Out o;
        o << finish(r, t) << " c=" << V{c};
        return o.s;
    });
    // function, function pointer, const function pointer, lambdas
    add_family("invoke.function", "invoke.callable", 6, 1, []<class L>(int x, int) {
        begin();
        TCM a(1);
        TCM const b(2);
        TCM c(3);
        int r        = 0;
        auto* fp     = &free_fn;
        auto* const cfp = &free_fn;
        int captured = 9;
        auto lam     = [](TCM& p, TCM const& q, TCM&& s, int d) {
            log_call("lambda", 0, "-");
            return val_of(p) + val_of(q) + val_of(s) + d;
        };
        auto mlam = [captured](TCM& p, TCM const& q, TCM&& s, int d) mutable {
            log_call("mutable-lambda", captured, "-");
            ++captured;
            return val_of(p) + val_of(q) + val_of(s) + d + captured;
        };
        std::string t;
        switch (x) {
        case 0: r = L::invoke(free_fn, a, b, std::move(c), 4); t = type_name<decltype(L::invoke(free_fn, a, b, std::move(c), 4))>(); break;
        case 1: r = L::invoke(fp, a, b, std::move(c), 4); break;
        case 2: r = L::invoke(cfp, a, b, std::move(c), 4); break;
        case 3: r = L::invoke(lam, a, b, std::move(c), 4); break;
        case 4: r = L::invoke(mlam, a, b, std::move(c), 4) * 100 + L::invoke(mlam, a, b, std::move(c), 4); break; // state of the SAME lambda object advances
        default: r = L::invoke(std::move(lam), a, b, TCM(3), 4); break;
        }
        Out o;
        o << finish(r, t) << " c=" << V{c};
        return o.s;
    });
    // results: reference, rvalue reference, move-only prvalue — type and identity unchanged
    add_family("invoke.result", "invoke.callable", 3, 1, []<class L>(int x, int) {
        begin();
        Out o;
        if (x == 0) {
            using R = decltype(L::invoke(RetRef{}));
            R r     = L::invoke(RetRef{});
            o << finish(r, type_name<R>()) << " same:" << (&r == &g_int);
        } else if (x == 1) {
            TCM obj(6);
            using R = decltype(L::invoke(RetRRef{&obj}));
            R r     = L::invoke(RetRRef{&obj});
            o << finish(val_of(r), type_name<R>()) << " same:" << (&r == &obj) << " obj=" << V{obj};
        } else {
            using R = decltype(L::invoke(RetMO{}, 8));
            R r     = L::invoke(RetMO{}, 8);
            o << finish(val_of(r), type_name<R>());
        }
        return o.s;
    });
    add_family("invoke_r", "invoke.callable", 4, 1, []<class L>(int x, int) {
        begin();
        Logger f{7};
        S s;
        Out o;
        if (x == 0) {
            auto r = L::template invoke_r<long>(f, 1);
            o << finish(static_cast<int>(r), type_name<decltype(r)>());
        } else if (x == 1) {
            L::template invoke_r<void>(f, 1);
            o << finish(0, "void");
        } else if (x == 2) {
            auto r = L::template invoke_r<long>(&S::m_plain, s, 2);
            o << finish(static_cast<int>(r), type_name<decltype(r)>());
        } else {
            auto r = L::template invoke_r<double>(&S::v, s);
            o << finish(static_cast<int>(r), type_name<decltype(r)>());
        }
        return o.s;
    });
}

// member function pointers: one family per member, x = way the object is reached
#define C20_MEMFN_CASE(N, EXPR)                                                                                         \
    case N: {                                                                                                          \
        r = (EXPR);                                                                                                    \
        t = type_name<decltype(EXPR)>();                                                                               \
        break;                                                                                                         \
    }
void add_invoke_members()
{
    add_family("invoke.memfn.plain", "invoke.member", 9, 1, []<class L>(int x, int) {
        begin();
        S s;
        D d;
        auto pm = &S::m_plain;
        int r   = 0;
        std::string t;
        switch (x) {
            C20_MEMFN_CASE(0, L::invoke(pm, s, 1))
            C20_MEMFN_CASE(1, L::invoke(pm, S{}, 1))
            C20_MEMFN_CASE(2, L::invoke(pm, &s, 1))
            C20_MEMFN_CASE(3, L::invoke(pm, PtrLike{&s}, 1))
            C20_MEMFN_CASE(4, L::invoke(pm, L::ref(s), 1))
            C20_MEMFN_CASE(5, L::invoke(pm, d, 1))
            C20_MEMFN_CASE(6, L::invoke(pm, &d, 1))
            C20_MEMFN_CASE(7, L::invoke(pm, L::ref(d), 1))
            C20_MEMFN_CASE(8, L::invoke(std::as_const(pm), std::move(s), 1))
        default: break;
        }
        return finish(r, t);
    });
    add_family("invoke.memfn.const", "invoke.member", 9, 1, []<class L>(int x, int) {
        begin();
        S s;
        S const cs;
        D const cd;
        auto pm = &S::m_const;
        int r   = 0;
        std::string t;
        switch (x) {
            C20_MEMFN_CASE(0, L::invoke(pm, s, 1))
            C20_MEMFN_CASE(1, L::invoke(pm, cs, 1))
            C20_MEMFN_CASE(2, L::invoke(pm, std::move(cs), 1))
            C20_MEMFN_CASE(3, L::invoke(pm, &cs, 1))
            C20_MEMFN_CASE(4, L::invoke(pm, L::cref(s), 1))
            C20_MEMFN_CASE(5, L::invoke(pm, L::ref(cs), 1))
            C20_MEMFN_CASE(6, L::invoke(pm, cd, 1))
            C20_MEMFN_CASE(7, L::invoke(pm, &cd, 1))
            C20_MEMFN_CASE(8, L::invoke(pm, PtrLike{&s}, 1))
        default: break;
        }
        return finish(r, t);
    });
    add_family("invoke.memfn.refqualified", "invoke.member", 10, 1, []<class L>(int x, int) {
        begin();
        S s;
        S const cs;
        int r = 0;
        std::string t;
        switch (x) {
            C20_MEMFN_CASE(0, L::invoke(&S::m_lref, s, 1))
            C20_MEMFN_CASE(1, L::invoke(&S::m_lref, &s, 1))
            C20_MEMFN_CASE(2, L::invoke(&S::m_lref, L::ref(s), 1))
            C20_MEMFN_CASE(3, L::invoke(&S::m_clref, cs, 1))
            C20_MEMFN_CASE(4, L::invoke(&S::m_clref, s, 1))
            C20_MEMFN_CASE(5, L::invoke(&S::m_clref, S{}, 1))
            C20_MEMFN_CASE(6, L::invoke(&S::m_rref, std::move(s), 1))
            C20_MEMFN_CASE(7, L::invoke(&S::m_rref, S{}, 1))
            C20_MEMFN_CASE(8, L::invoke(&S::m_crref, std::move(cs), 1))
            C20_MEMFN_CASE(9, L::invoke(&S::m_crref, std::move(s), 1))
        default: break;
        }
        return finish(r, t);
    });
    add_family("invoke.memfn.args", "invoke.member", 3, 1, []<class L>(int x, int) {
        begin();
        S s;
        TCM a(1);
        TCM const b(2);
        int r = 0;
        std::string t;
        switch (x) {
            C20_MEMFN_CASE(0, L::invoke(&S::m_noexcept, s, std::move(a), b))
            C20_MEMFN_CASE(1, L::invoke(&S::m_noexcept, &s, TCM(1), a))
            C20_MEMFN_CASE(2, L::invoke(&S::m_noexcept, L::ref(s), std::move(a), b))
        default: break;
        }
        Out o;
        o << finish(r, t) << " a=" << V{a}; // the member does not move from its argument: a stays intact
        return o.s;
    });
    add_family("invoke.memfn.result_ref", "invoke.member", 2, 1, []<class L>(int x, int) {
        begin();
        S s;
        Out o;
        if (x == 0) {
            using R = decltype(L::invoke(&S::m_ref, s));
            R r     = L::invoke(&S::m_ref, s);
            o << finish(r, type_name<R>()) << " same:" << (&r == &s.v);
        } else {
            using R = decltype(L::invoke(&S::m_ref, &s));
            R r     = L::invoke(&S::m_ref, &s);
            o << finish(r, type_name<R>()) << " same:" << (&r == &s.v);
        }
        return o.s;
    });
    // member data pointer: result type follows the object's category / constness and refers to the member itself
    add_family("invoke.memdata", "invoke.member", 12, 1, []<class L>(int x, int) {
        begin();
        S s;
        S const cs;
        D d;
        auto pd = &S::v;
        Out o;
#define C20_MEMDATA_CASE(N, EXPR, OBJ)                                                                                  \
    case N: {                                                                                                          \
        using R = decltype(EXPR);                                                                                      \
        R r     = (EXPR);                                                                                              \
        o << type_name<R>() << " same:" << (&r == &(OBJ).v) << " value:" << r;                                         \
        break;                                                                                                         \
    }
        switch (x) {
            C20_MEMDATA_CASE(0, L::invoke(pd, s), s)
            C20_MEMDATA_CASE(1, L::invoke(pd, cs), cs)
            C20_MEMDATA_CASE(2, L::invoke(pd, std::move(s)), s)
            C20_MEMDATA_CASE(3, L::invoke(pd, std::move(cs)), cs)
            C20_MEMDATA_CASE(4, L::invoke(pd, &s), s)
            C20_MEMDATA_CASE(5, L::invoke(pd, &cs), cs)
            C20_MEMDATA_CASE(6, L::invoke(pd, PtrLike{&s}), s)
            C20_MEMDATA_CASE(7, L::invoke(pd, L::ref(s)), s)
            C20_MEMDATA_CASE(8, L::invoke(pd, L::cref(s)), s)
            C20_MEMDATA_CASE(9, L::invoke(pd, d), d)
            C20_MEMDATA_CASE(10, L::invoke(pd, &d), d)
            C20_MEMDATA_CASE(11, L::invoke(std::as_const(pd), L::ref(d)), d)
        default: break;
        }
        return o.s;
    });
}

// ------------------------------------------------------------------ reference_wrapper
void add_reference_wrapper()
{
    add_family("rw.call", "reference_wrapper", 6, 1, []<class L>(int x, int) {
        begin();
        Logger f{3};
        Logger const cf{4};
        TCM a(1);
        TCM const b(2);
        TCM c(3);
        S s;
        auto pm = &S::m_plain;
        auto pd = &S::v;
        int r   = 0;
        std::string t;
        switch (x) {
        case 0: {
            auto w = L::ref(f);
            r      = w(a, b, std::move(c), 4);
            t      = type_name<decltype(w(a, b, std::move(c), 4))>();
            break;
        }
        case 1: {
            auto w = L::cref(f);
            r      = w(a, b, std::move(c), 4);
            break;
        }
        case 2: {
            auto w        = L::ref(cf);
            auto const cw = w;
            r             = cw() + std::move(w)(a);
            break;
        }
        case 3: {
            auto w = L::ref(free_fn);
            r      = w(a, b, std::move(c), 4);
            t      = type_name<decltype(w(a, b, std::move(c), 4))>();
            break;
        }
        case 4: {
            auto w = L::ref(pm);
            r      = w(s, 1) + w(&s, 2);
            break;
        }
        default: {
            auto w = L::ref(pd);
            using R = decltype(w(s));
            R v    = w(s);
            r      = v + (&v == &s.v ? 1000 : 0);
            t      = type_name<R>();
            break;
        }
        }
        Out o;
        o << finish(r, t) << " c=" << V{c};
        return o.s;
    });
    add_family("rw.observers", "reference_wrapper", 1, 1, []<class L>(int, int) {
        begin();
        TCM a(1), b(2);
        TCM const k(3);
        auto ra = L::ref(a);
        auto rk = L::cref(k);
        Out o;
        o << type_name<decltype(ra)>() << " " << type_name<typename decltype(ra)::type>() << " get->" << type_name<decltype(ra.get())>() << " " << type_name<decltype(rk)>() << " get->" << type_name<decltype(rk.get())>();
        TCM& back        = ra;
        TCM const& cback = rk;
        o << " refers:" << (&ra.get() == &a) << (&back == &a) << (&rk.get() == &k) << (&cback == &k);
        auto rb  = L::ref(b);
        auto cpy = ra;   // copy refers to the same object
        ra       = rb;   // rebinding the original does not rebind the copy
        o << " rebind:" << (&ra.get() == &b) << (&cpy.get() == &a) << (&rb.get() == &b);
        auto rr = L::ref(cpy);  // ref(reference_wrapper) unwraps one level
        auto cr = L::cref(cpy);
        auto ca = L::cref(a);
        o << " " << type_name<decltype(rr)>() << ":" << (&rr.get() == &a) << " " << type_name<decltype(cr)>() << ":" << (&cr.get() == &a) << " " << type_name<decltype(ca)>();
        ra.get() = TCM(9); // writes through
        o << " b=" << V{b} << " a=" << V{a} << " a-unmoved-by-wrappers:" << (val_of(a) == 1);
        return o.s;
    });
}

// ------------------------------------------------------------------ function_ref
// oracle: std::function<Sig> holding std::ref(target): invokes the referenced object as an lvalue (const if the
// target is const) with std::forward<Args>(args)..., converts the result to R
template <typename L, typename Sig, typename T>
auto make_fref(T& target)
{
    if constexpr (std::is_same_v<L, EtlLib>) {
        return etl::function_ref<Sig>{target};
    } else {
        return std::function<Sig>{std::ref(target)};
    }
}

// a function taking the wrapper by value, called with a temporary callable (the idiomatic use of function_ref)
template <typename L, typename Sig>
auto through_param(std::conditional_t<std::is_same_v<L, EtlLib>, etl::function_ref<Sig>, std::function<Sig>> f, TCM& a, TCM const& b, TCM&& c) -> int
{
    return f(a, b, std::move(c), 4);
}

void add_function_ref()
{
    using Sig = int(TCM&, TCM const&, TCM&&, int);
    add_family("fref.call", "function_ref", 8, 1, []<class L>(int x, int) {
        begin();
        Logger f{3};
        Logger const cf{4};
        TCM a(1);
        TCM const b(2);
        TCM c(3);
        auto lam = [](TCM& p, TCM const& q, TCM&& s, int d) {
            log_call("lambda", 0, "-");
            return val_of(p) + val_of(q) + val_of(s) + d;
        };
        auto const clam = lam;
        auto* fp        = &free_fn;
        int r           = 0;
        switch (x) {
        case 0: r = make_fref<L, Sig>(f)(a, b, std::move(c), 4); break;
        case 1: r = make_fref<L, Sig>(cf)(a, b, std::move(c), 4); break;
        case 2: r = make_fref<L, Sig>(free_fn)(a, b, std::move(c), 4); break;
        case 3: r = make_fref<L, Sig>(fp)(a, b, std::move(c), 4); break;
        case 4: r = make_fref<L, Sig>(lam)(a, b, std::move(c), 4); break;
        case 5: r = make_fref<L, Sig>(clam)(a, b, std::move(c), 4); break;
        case 6: r = through_param<L, Sig>(Logger{8}, a, b, std::move(c)); break; // temporary callable: invoked as a non-const lvalue
        default: {
            auto const w = make_fref<L, Sig>(f); // const wrapper, called twice: two calls
            r            = w(a, b, std::move(c), 4) + w(a, b, TCM(5), 6);
            break;
        }
        }
        Out o;
        o << finish(r, "int") << " c=" << V{c};
        return o.s;
    });
    add_family("fref.byvalue_and_result", "function_ref", 6, 1, []<class L>(int x, int) {
        begin();
        Logger f{3};
        S s;
        auto pm = &S::m_plain;
        TCM a(1);
        Out o;
        switch (x) {
        case 0: { // by-value parameter: the callee sees an rvalue; an lvalue argument is copied (source intact)
            auto w = make_fref<L, int(TCM)>(f);
            int r  = w(a);
            o << finish(r, type_name<decltype(w(a))>()) << " a=" << V{a};
            break;
        }
        case 1: { // by-value parameter from an rvalue: moved
            auto w = make_fref<L, int(TCM)>(f);
            int r  = w(std::move(a));
            o << finish(r, "int") << " a=" << V{a};
            break;
        }
        case 2: { // result converted to R
            auto w = make_fref<L, long(int)>(f);
            auto r = w(2);
            o << finish(static_cast<int>(r), type_name<decltype(r)>());
            break;
        }
        case 3: { // void discards
            auto w = make_fref<L, void(int)>(f);
            w(2);
            o << finish(0, type_name<decltype(w(2))>());
            break;
        }
        case 4: { // reference result: type and identity unchanged
            RetRef rr;
            auto w  = make_fref<L, int&()>(rr);
            using R = decltype(w());
            R r     = w();
            o << finish(r, type_name<R>()) << " same:" << (&r == &g_int);
            break;
        }
        default: { // member function pointer target
            auto w = make_fref<L, int(S&, int)>(pm);
            int r  = w(s, 3);
            o << finish(r, "int");
            break;
        }
        }
        return o.s;
    });
    add_family("fref.copies", "function_ref", 1, 1, []<class L>(int, int) {
        begin();
        Logger f{3};
        Logger g{4};
        auto w1 = make_fref<L, int(int)>(f);
        auto w2 = w1;                       // copy (from a non-const lvalue) calls the same target ...
        auto const w3{std::as_const(w1)};   // copy from a const lvalue
        w1     = make_fref<L, int(int)>(g); // ... and keeps it when the original is re-bound
        int r1 = w1(1);
        int r2 = w2(2);
        int r3 = w3(3);
        auto w4 = w2;
        w4      = w1; // copy assignment
        int r4  = w4(4);
        Out o;
        o << finish(r1, "int") << " r2=" << r2 << " r3=" << r3 << " r4=" << r4;
        return o.s;
    });
    add_family_model("fref.deduction_guide", "function_ref", 1, 1,
        +[](int, int) {
            begin();
            etl::function_ref w{free_fn1};
            int r = w(5);
            return finish(r, type_name<decltype(w)>());
        },
        +[](int, int) {
            begin();
            int r = free_fn1(5);
            return finish(r, "L::function_ref<int(int)>");
        });
}

// ------------------------------------------------------------------ bind_front
template <typename W, typename... A>
auto call_as(int wcat, W& w, A&&... a) -> int
{
    switch (wcat) {
    case 0: return w(std::forward<A>(a)...);
    case 1: return std::as_const(w)(std::forward<A>(a)...);
    case 2: return std::move(w)(std::forward<A>(a)...);
    default: return std::move(std::as_const(w))(std::forward<A>(a)...);
    }
}

void add_bind_front()
{
    // x = wrapper category, y = 0: no call arguments, 1: (lvalue, const lvalue, rvalue, prvalue)
    add_family("bind_front.logger.bound(int)", "bind_front", 4, 2, []<class L>(int x, int y) {
        begin();
        TCM a(1);
        TCM const b(2);
        TCM c(3);
        auto w = L::bind_front(Logger{7}, 5);
        int r  = y == 0 ? call_as(x, w) : call_as(x, w, a, b, std::move(c), 4);
        Out o;
        o << finish(r, type_name<decltype(w(a, b, std::move(c), 4))>()) << " c=" << V{c};
        return o.s;
    });
    add_family("bind_front.logger.bound(TCM&&)", "bind_front", 4, 2, []<class L>(int x, int y) {
        begin();
        TCM a(1);
        TCM const b(2);
        TCM c(3);
        TCM src(6);
        auto w = L::bind_front(Logger{7}, std::move(src));
        int r  = y == 0 ? call_as(x, w) : call_as(x, w, a, b, std::move(c), 4);
        int r2 = w(); // the logger never moves: the bound argument is still 6 afterwards
        Out o;
        o << finish(r, "int") << " r2=" << r2 << " src=" << V{src} << " c=" << V{c};
        return o.s;
    });
    add_family("bind_front.logger.bound(int,TCM&&,TCO)", "bind_front", 4, 2, []<class L>(int x, int y) {
        begin();
        TCM a(1);
        TCM const b(2);
        TCM c(3);
        TCM src(6);
        TCO co(8);
        auto w = L::bind_front(Logger{7}, 5, std::move(src), TCO(co));
        int r  = y == 0 ? call_as(x, w) : call_as(x, w, a, b, std::move(c), 4);
        Out o;
        o << finish(r, "int") << " src=" << V{src} << " co=" << V{co} << " c=" << V{c};
        return o.s;
    });
    // consuming callee: an lvalue call copies the bound argument, an rvalue call moves it
    add_family("bind_front.consume", "bind_front", 4, 1, []<class L>(int x, int) {
        begin();
        auto w = L::bind_front(Consume{}, TCM(3));
        int r1 = w(1);
        int r2 = call_as(x, w, 2);
        int r3 = w(3); // sees M iff the call above was made on an rvalue wrapper (&&; const&& copies)
        Out o;
        o << finish(r1, type_name<decltype(w(1))>()) << " r2=" << r2 << " r3=" << r3;
        return o.s;
    });
    // reference_wrapper bound argument: the callee works on the referenced object (lvalue / const lvalue calls only)
    add_family("bind_front.ref", "bind_front", 2, 1, []<class L>(int x, int) {
        begin();
        TCM t(4);
        auto w = L::bind_front(TakesRef{}, L::ref(t));
        int r  = call_as(x, w, 1);
        int r2 = call_as(x, w, 2);
        Out o;
        o << finish(r, "int") << " r2=" << r2 << " t=" << V{t};
        return o.s;
    });
    add_family("bind_front.targets", "bind_front", 6, 1, []<class L>(int x, int) {
        begin();
        S s;
        Out o;
        switch (x) {
        case 0: {
            auto w = L::bind_front(&S::m_plain, &s);
            o << finish(w(1), type_name<decltype(w(1))>());
            break;
        }
        case 1: {
            auto w = L::bind_front(&S::m_plain, L::ref(s), 2);
            o << finish(w(), type_name<decltype(w())>());
            break;
        }
        case 2: {
            auto w  = L::bind_front(&S::v, &s);
            using R = decltype(w());
            R r     = w();
            o << finish(r, type_name<R>()) << " same:" << (&r == &s.v);
            break;
        }
        case 3: {
            auto w = L::bind_front(free_fn1, 6);
            o << finish(w(), type_name<decltype(w())>());
            break;
        }
        case 4: {
            auto w = L::bind_front(&free_fn1, 6);
            o << finish(std::move(w)(), "int");
            break;
        }
        default: {
            auto w  = L::bind_front(RetMO{}, 9); // move-only result arrives without a copy
            using R = decltype(w());
            R r     = w();
            o << finish(val_of(r), type_name<R>());
            break;
        }
        }
        return o.s;
    });
    add_family("bind_front.copies", "bind_front", 1, 1, []<class L>(int, int) {
        begin();
        auto w  = L::bind_front(Consume{}, TCM(3));
        auto c  = w;            // copy: independent bound argument
        int r1  = std::move(c)(1); // consumes the copy's bound argument
        int r2  = c(2);         // M
        int r3  = w(3);         // original intact
        auto m  = std::move(w); // move construction: bound argument travels
        int r4  = m(4);
        Out o;
        o << finish(r1, "int") << " r2=" << r2 << " r3=" << r3 << " r4=" << r4;
        return o.s;
    });
}

// ------------------------------------------------------------------ not_fn
template <typename W, typename... A>
auto call_as_bool(int wcat, W& w, A&&... a) -> bool
{
    switch (wcat) {
    case 0: return w(std::forward<A>(a)...);
    case 1: return std::as_const(w)(std::forward<A>(a)...);
    case 2: return std::move(w)(std::forward<A>(a)...);
    default: return std::move(std::as_const(w))(std::forward<A>(a)...);
    }
}

void add_not_fn()
{
    // Logger returns id*1000 + 100*n + first: id 0 and no argument -> 0 -> negation true
    add_family("not_fn.logger", "not_fn", 4, 3, []<class L>(int x, int y) {
        begin();
        TCM a(1);
        TCM const b(2);
        TCM c(3);
        auto w = L::not_fn(Logger{y == 0 ? 0 : 7});
        bool r = y == 0 ? call_as_bool(x, w) : (y == 1 ? call_as_bool(x, w, a, b, std::move(c), 4) : call_as_bool(x, w, TCM(0)));
        Out o;
        o << finish(r ? 1 : 0, type_name<decltype(w(a))>()) << " c=" << V{c};
        return o.s;
    });
    add_family("not_fn.targets", "not_fn", 6, 1, []<class L>(int x, int) {
        begin();
        S s;
        S small;
        small.v = 1;
        bool r  = false;
        switch (x) {
        case 0: r = L::not_fn(free_pred)(1); break;
        case 1: r = L::not_fn(&free_pred)(5); break;
        case 2: r = L::not_fn(&S::is_big)(s); break;
        case 3: r = L::not_fn(&S::is_big)(&small); break;
        case 4: r = L::not_fn(&S::flag)(s); break;
        default: {
            auto w = L::not_fn(Logger{0});
            auto c = w;
            auto m = std::move(w);
            r      = c() && m(TCM(0));
            break;
        }
        }
        return finish(r ? 1 : 0, "bool");
    });
}

// ------------------------------------------------------------------ inplace_function: argument forwarding (the histories are C20_inplace_function.cpp)
template <typename L, typename Sig, typename T>
auto make_ipf(T&& target)
{
    if constexpr (std::is_same_v<L, EtlLib>) {
        return etl::inplace_function<Sig, 32>{std::forward<T>(target)};
    } else {
        return std::function<Sig>{std::forward<T>(target)};
    }
}

void add_inplace_function_forwarding()
{
    // oracle: std::function with the same signature.  The stored callable is invoked as a non-const lvalue (also
    // through a const wrapper), reference parameters keep their category, a by-value parameter is copied from an
    // lvalue argument and moved from an rvalue argument and reaches the target as an rvalue.
    add_family("ipf.forwarding", "inplace_function.forwarding", 4, 1, []<class L>(int x, int) {
        begin();
        TCM a(1);
        TCM const b(2);
        TCM c(3);
        TCM d(4);
        Out o;
        switch (x) {
        case 0: {
            auto w = make_ipf<L, int(TCM&, TCM const&, TCM&&, TCM)>(Logger{3});
            int r  = w(a, b, std::move(c), d); // d is copied into the by-value parameter
            o << finish(r, type_name<decltype(w(a, b, std::move(c), d))>());
            break;
        }
        case 1: {
            auto const w = make_ipf<L, int(TCM&, TCM const&, TCM&&, TCM)>(Logger{3});
            int r        = w(a, b, std::move(c), std::move(d)); // d is moved into the by-value parameter
            o << finish(r, "int");
            break;
        }
        case 2: {
            Logger const cl{5}; // a const callable is copied in; the stored copy is called as a non-const lvalue
            auto w = make_ipf<L, int(TCM&, TCM const&, TCM&&, TCM)>(cl);
            int r  = w(a, b, TCM(9), TCM(8)) + w(a, a, std::move(c), b);
            o << finish(r, "int");
            break;
        }
        default: {
            auto w  = make_ipf<L, TMO(int)>(RetMO{}); // move-only result arrives without a copy
            using R = decltype(w(7));
            R r     = w(7);
            o << finish(val_of(r), type_name<R>());
            break;
        }
        }
        o << " a=" << V{a} << " c=" << V{c} << " d=" << V{d};
        return o.s;
    });
}

// ------------------------------------------------------------------ compositions
void add_compositions()
{
    add_family("bind_front.nested", "bind_front", 4, 1, []<class L>(int x, int) {
        begin();
        TCM a(1);
        auto w = L::bind_front(L::bind_front(Logger{7}, 1), TCM(2));
        int r  = call_as(x, w, a, 3);
        return finish(r, type_name<decltype(w(a, 3))>());
    });
    add_family("not_fn.nested", "not_fn", 4, 1, []<class L>(int x, int) {
        begin();
        auto w = L::not_fn(L::not_fn(Logger{7}));
        bool r = call_as_bool(x, w, TCM(1));
        return finish(r ? 1 : 0, type_name<decltype(w(TCM(1)))>());
    });
    add_family("not_fn.of_bind_front", "not_fn", 4, 1, []<class L>(int x, int) {
        begin();
        auto w = L::not_fn(L::bind_front(Logger{0}, 0));
        bool r = call_as_bool(x, w);
        return finish(r ? 1 : 0, "bool");
    });
    add_family("apply.member_pointer", "invoke.member", 3, 1, []<class L>(int x, int) {
        begin();
        S s;
        int r = 0;
        std::string t;
        switch (x) {
        case 0: {
            auto tup = L::make_tuple(&s, 1);
            r        = L::apply(&S::m_plain, tup);
            t        = type_name<decltype(L::apply(&S::m_plain, tup))>();
            break;
        }
        case 1: {
            // (make_tuple(ref(s), 2) with a class-type s is EXCLUDED: the leaf brace-initialises S& from a reference_wrapper)
            int two  = 2;
            auto tup = L::tie(s, two);
            r        = L::apply(&S::m_plain, tup); // (an rvalue tuple of references is EXCLUDED, see C20_types.cpp)
            break;
        }
        default: {
            auto tup = L::forward_as_tuple(s);
            using R  = decltype(L::apply(&S::v, tup));
            R v      = L::apply(&S::v, tup);
            r        = v + (&v == &s.v ? 1000 : 0);
            t        = type_name<R>();
            break;
        }
        }
        return finish(r, t);
    });
    add_family("apply.logger_categories", "invoke.callable", 4, 1, []<class L>(int x, int) {
        begin();
        Logger f{2};
        auto tup = L::make_tuple(TCM(1), 2);
        int r    = 0;
        switch (x) { // the callable's own category is forwarded, too
        case 0: r = L::apply(f, tup); break;
        case 1: r = L::apply(std::as_const(f), std::as_const(tup)); break;
        case 2: r = L::apply(std::move(f), std::move(tup)); break;
        default: r = L::apply(std::move(std::as_const(f)), std::move(std::as_const(tup))); break;
        }
        return finish(r, "int");
    });
    // inplace_function targets other than functors (a member pointer target is EXCLUDED: the invoke thunk uses call syntax)
    add_family("ipf.targets", "inplace_function.forwarding", 6, 1, []<class L>(int x, int) {
        begin();
        int r        = 0;
        int captured = 5;
        switch (x) {
        case 0: r = make_ipf<L, int(int)>(free_fn1)(1); break;
        case 1: r = make_ipf<L, int(int)>(&free_fn1)(2); break;
        case 2: {
            auto w = make_ipf<L, int(int)>([&captured](int v) {
                log_call("ref-capturing lambda", captured, "-");
                ++captured;
                return v + captured;
            });
            auto c = w; // copies share the referenced variable
            r      = w(1) * 100 + c(1);
            break;
        }
        case 3: { // reference result: type and identity unchanged
            auto w  = make_ipf<L, int&()>(RetRef{});
            using R = decltype(w());
            R v     = w();
            r       = v + (&v == &g_int ? 1000 : 0);
            break;
        }
        case 4: { // void signature, void callable
            auto w = make_ipf<L, void(int)>([&captured](int v) {
                log_call("void lambda", v, "-");
                captured += v;
            });
            w(3);
            w(4);
            r = captured;
            break;
        }
        default: {
            auto w = make_ipf<L, int(int)>([captured](int v) mutable {
                log_call("value-capturing mutable lambda", captured, "-");
                ++captured;
                return v + captured;
            });
            auto c = w; // copies own their capture
            r      = w(1) * 10000 + w(1) * 100 + c(1);
            break;
        }
        }
        Out o;
        o << finish(r, "int") << " captured=" << captured;
        return o.s;
    });
    // swapping wrappers exchanges their targets (bind_front / not_fn wrappers are not assignable in std either)
    add_family("swap.wrappers", "reference_wrapper", 3, 1, []<class L>(int x, int) {
        begin();
        Logger f{3};
        Logger g{4};
        int r = 0;
        switch (x) {
        case 0: {
            auto a = L::ref(f);
            auto b = L::ref(g);
            L::swap(a, b);
            r = a(1) * 10000 + b(2) + (&a.get() == &g ? 100000000 : 0);
            break;
        }
        case 1: {
            auto a = make_fref<L, int(int)>(f);
            auto b = make_fref<L, int(int)>(g);
            L::swap(a, b);
            r = a(1) * 10000 + b(2);
            break;
        }
        default: { // copy assignment of reference_wrapper / function_ref re-binds
            auto a = L::ref(f);
            auto b = make_fref<L, int(int)>(f);
            a      = L::ref(g);
            b      = make_fref<L, int(int)>(g);
            r      = a(1) * 10000 + b(2);
            break;
        }
        }
        return finish(r, "int");
    });
}

// ------------------------------------------------------------------ object identity under an overloaded unary operator&,
// by-value parameters (copy counts), targets with an initializer_list constructor
// A callable whose class overloads unary operator& (handle / proxy style): `&obj` yields ANOTHER object (a decoy with a
// different factor).  Wrappers that store a pointer / reference to a user object must use addressof: the call has to
// land in the bound object (its call counter moves, its factor decides the result).
struct Amp {
    int k;
    Amp* decoy;
    mutable int calls{0};
    auto operator&() -> Amp* { return decoy; }
    auto operator&() const -> Amp const* { return decoy; }
    auto operator()(int x) const -> int
    {
        ++calls;
        log_call("Amp", k, "const&");
        log_arg("int", x);
        return k * x;
    }
};
// a callable that converts to int and has an initializer_list<int> constructor: C{c} and C(c) differ
struct ILFn {
    int k;
    explicit ILFn(int v) : k(v) { }
    ILFn(std::initializer_list<int> l) : k(static_cast<int>(l.size()) * 1000) { }
    ILFn(ILFn const&) = default;
    operator int() const { return k; } // NOLINT
    auto operator()(int x) -> int
    {
        log_call("ILFn", k, "&");
        return k + x;
    }
};
template <typename L>
auto amp_through_param(std::conditional_t<std::is_same_v<L, EtlLib>, etl::function_ref<int(int)>, std::function<int(int)>> f, int x) -> int
{
    return f(x);
}

void add_round3()
{
    add_family("fref.addressof", "function_ref", 4, 1, []<class L>(int x, int) {
        begin();
        Amp decoy{1000, nullptr};
        Amp a{3, std::addressof(decoy)};
        Amp const ca{5, std::addressof(decoy)};
        int r = 0;
        switch (x) {
        case 0: r = make_fref<L, int(int)>(a)(2); break;
        case 1: r = make_fref<L, int(int)>(ca)(2); break;
        case 2: {
            if constexpr (std::is_same_v<L, EtlLib>) {
                r = amp_through_param<L>(Amp{7, std::addressof(decoy)}, 2); // temporary callable bound to the by-value function_ref parameter
            } else {
                r = amp_through_param<L>(std::function<int(int)>{Amp{7, std::addressof(decoy)}}, 2);
            }
            break;
        }
        default: {
            auto w = make_fref<L, int(int)>(a);
            auto c = w;
            a.k    = 4; // the wrapper refers to the object: a later change of its state is seen
            r      = c(2) * 100 + w(3);
            break;
        }
        }
        Out o;
        o << finish(r, "int") << " calls: a=" << a.calls << " ca=" << ca.calls << " decoy=" << decoy.calls;
        return o.s;
    });
    add_family("rw.addressof", "reference_wrapper", 1, 1, []<class L>(int, int) {
        begin();
        Amp decoy{1000, nullptr};
        Amp a{3, std::addressof(decoy)};
        Amp b{4, std::addressof(decoy)};
        auto r  = L::ref(a);
        auto c  = L::cref(a);
        auto rr = L::ref(r);
        Amp& back = r;
        Out o;
        o << "refers:" << (std::addressof(r.get()) == std::addressof(a)) << (std::addressof(c.get()) == std::addressof(a)) << (std::addressof(rr.get()) == std::addressof(a)) << (std::addressof(back) == std::addressof(a));
        int r1 = r(2);
        int r2 = c(3);
        r      = L::ref(b);
        int r3 = r(2);
        auto w = L::bind_front(L::ref(a), 5); // a reference_wrapper as the bound callable
        int r4 = w();
        int r5 = L::invoke(L::ref(a), 6);
        bool n = L::not_fn(L::ref(a))(0);
        o << " " << finish(r1, "int") << " r2=" << r2 << " r3=" << r3 << " r4=" << r4 << " r5=" << r5 << " n=" << n << " calls: a=" << a.calls << " b=" << b.calls << " decoy=" << decoy.calls;
        return o.s;
    });
    add_family("tuple.addressof", "reference_wrapper", 1, 1, []<class L>(int, int) {
        begin();
        Amp decoy{1000, nullptr};
        Amp a{3, std::addressof(decoy)};
        Amp const ca{5, std::addressof(decoy)};
        auto t  = L::tie(a, ca);
        auto fw = L::forward_as_tuple(a, ca, std::move(a));
        typename L::template pair<Amp&, Amp const&> p{a, ca};
        typename L::template tuple<Amp, Amp> owned{a, ca}; // copies keep the value, get<I> refers to the element
        Out o;
        o << "tie:" << (std::addressof(L::template get<0>(t)) == std::addressof(a)) << (std::addressof(L::template get<1>(t)) == std::addressof(ca));
        o << " forward_as_tuple:" << (std::addressof(L::template get<0>(fw)) == std::addressof(a)) << (std::addressof(L::template get<1>(fw)) == std::addressof(ca)) << (std::addressof(L::template get<2>(fw)) == std::addressof(a));
        o << " pair:" << (std::addressof(p.first) == std::addressof(a)) << (std::addressof(L::template get<1>(p)) == std::addressof(ca));
        o << " owned:" << L::template get<0>(owned).k << "," << L::template get<1>(owned).k;
        int r = L::apply([](Amp& x, Amp const& y) { return x(2) * 100 + y(3); }, t);
        o << " " << finish(r, "int") << " calls: a=" << a.calls << " ca=" << ca.calls << " decoy=" << decoy.calls;
        return o.s;
    });
    // owning wrappers with an operator&-overloading / initializer_list-constructible target: the stored COPY is the target
    add_family("ipf.special_targets", "inplace_function.forwarding", 4, 1, []<class L>(int x, int) {
        begin();
        Amp decoy{1000, nullptr};
        Amp a{3, std::addressof(decoy)};
        int r = 0;
        switch (x) {
        case 0: {
            auto w = make_ipf<L, int(int)>(a);
            auto c = w;
            auto m = std::move(w);
            r      = c(2) * 100 + m(3);
            break;
        }
        case 1: { // [func.wrap.func.con]: the target is direct-non-list-initialised from the argument
            ILFn f(7);
            auto w = make_ipf<L, int(int)>(f);
            r      = w(1);
            break;
        }
        case 2: { // ... and so are the targets of copies and of moved-to wrappers
            auto w = make_ipf<L, int(int)>(ILFn(7));
            auto c = w;
            auto m = std::move(w);
            r      = c(1) * 100 + m(2);
            break;
        }
        default: {
            auto w = L::bind_front(ILFn(7), 1); // call wrappers store their target by direct-non-list-initialisation, too
            auto n = L::not_fn(ILFn(0));
            r      = w() * 10 + (n(0) ? 1 : 0);
            break;
        }
        }
        Out o;
        o << finish(r, "int") << " calls: a=" << a.calls << " decoy=" << decoy.calls;
        return o.s;
    });
    // by-value signature parameter and by-value target parameter: exactly the copies std::function makes (one for an
    // lvalue argument, none for an rvalue argument); the source is intact resp. moved from
    add_family("byvalue.copies", "inplace_function.forwarding", 6, 1, []<class L>(int x, int) {
        begin();
        TCM a(4);
        int r = 0;
        lt::reg().copies = 0;
        switch (x) {
        case 0: r = make_ipf<L, int(TCM, int)>(Consume{})(a, 1); break;
        case 1: r = make_ipf<L, int(TCM, int)>(Consume{})(std::move(a), 1); break;
        case 2: r = make_ipf<L, int(TCM&&, int)>(Consume{})(std::move(a), 1); break; // target copies?  no: moves from the forwarded rvalue
        case 3: {
            Consume t;
            r = make_fref<L, int(TCM, int)>(t)(a, 1);
            break;
        }
        case 4: {
            Consume t;
            r = make_fref<L, int(TCM, int)>(t)(std::move(a), 1);
            break;
        }
        default: {
            Consume t;
            r = make_fref<L, int(TCM&&, int)>(t)(std::move(a), 1);
            break;
        }
        }
        Out o;
        o << finish(r, "int") << " a=" << V{a} << " copies=" << static_cast<int>(lt::reg().copies);
        return o.s;
    });
}

void build()
{
    static bool done = false;
    if (done) { return; }
    done = true;
    add_invoke();
    add_invoke_members();
    add_reference_wrapper();
    add_function_ref();
    add_bind_front();
    add_not_fn();
    add_inplace_function_forwarding();
    add_compositions();
    add_round3();
}

} // namespace c20w

void vf_run(vf::Ctx& c)
{
    c20w::build();
    c20::run_all(c);
}

std::string vf_replay(std::string const& /*sub*/, std::string const& cs)
{
    c20w::build();
    return c20::replay_one(cs);
}
