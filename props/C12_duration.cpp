// C12 — duration / time_point arithmetic, comparison, conversion to the common type, duration_cast, floor, ceil,
// round (ties to even) and abs are exact rational arithmetic == std::chrono.
//
// Engine E2 (complete enumeration of the grid named by the property) + a seeded random top-up over the whole rep range.
// Oracles: (1) exact rational arithmetic in __int128 (floor / ceil / trunc / round-half-even of count*P1/P2),
//          (2) libstdc++ std::chrono instantiated with the same Rep and std::ratio<N,D>.
//
// One source, several translation units: the (rep combination, period, period) template groups (see group_exists) are
// distributed over C12_NSLICES harness binaries (-DC12_SLICE=k -DC12_NSLICES=n) so that they compile in parallel.
// To keep the instantiated code small, the templates only contain one-line wrappers ("ops") around the etl and std
// calls; domain computation, comparison with the oracles and message formatting are ordinary functions driven by a
// per-group descriptor.
//
// Domain (soundness): a call is only made when the exact result AND every intermediate the standard mandates
// ([time.duration.cast]: CR = common_type<ToRep, Rep, intmax_t>, count*CF::num/CF::den; [time.duration.nonmember],
// [time.duration.comparisons]: both operands converted to the common type) is representable.  floor/ceil/round are
// specified by their result only, but every implementation (libstdc++ included) has to compare d with the candidate
// t in the common type, so those conversions (of d, t-1, t, t+1) are required to be representable as well.
// For `double` reps: the formulas of duration_cast, the converting constructor, + - / and the comparisons are mandated
// expression by expression, hence etl must be bit-identical to std::chrono whenever there is no UB; the exact rational
// oracle is applied in addition whenever every intermediate is an integer multiple of 1/8 below 2^53 (then IEEE
// arithmetic is exact).  floor/ceil/round involving double are only checked inside that exact window.
//
// Not part of the check because it does not exist / does not compile on this tree: duration * scalar, scalar * duration,
// duration / scalar, duration % scalar (only the compound forms exist), time_point +/- duration, time_point - time_point,
// time_point_cast (returns ToDuration constructed from a time_point: ill-formed), the converting time_point constructor
// (calls a misspelled member), round<> to a floating-point duration (ill-formed in etl, constrained away in std).
#include <etl/chrono.hpp>
#include <etl/numeric.hpp>
#include <etl/ratio.hpp>

#include <array>
#include <bit>
#include <chrono>
#include <cinttypes>
#include <cmath>
#include <numeric>
#include <ratio>
#include <type_traits>
#include <utility>

#include "verif.hpp"

#ifndef C12_SLICE
    #define C12_SLICE 0
#endif
#ifndef C12_NSLICES
    #define C12_NSLICES 1
#endif

namespace ec = etl::chrono;
namespace sc = std::chrono;

namespace {

using i64  = std::int64_t;
using i32  = std::int32_t;
using f64  = double;
using i128 = __int128;

// ------------------------------------------------------------------------------------------------ case
struct Case {
    char const* sub;
    int combo, i, j; // rep combination, period index of the source / lhs, period index of the target / rhs
    i64 c1;          // numerator of the first count
    int frac;        // 1: the first count is c1/8.0 (double sources only), 0: it is c1
    i64 c2;          // second count (binary operations, scalars); 0 where unused
};
auto show_case(Case const& k) -> std::string
{
    char b[256];
    std::snprintf(b, sizeof b, "%s %d %d %d %" PRId64 " %d %" PRId64, k.sub, k.combo, k.i, k.j, k.c1, k.frac, k.c2);
    return b;
}

// ------------------------------------------------------------------------------------------------ exact arithmetic
constexpr i128 P53 = i128{1} << 53;
constexpr i128 P62 = i128{1} << 62;
constexpr i128 abs128(i128 v) { return v < 0 ? -v : v; }
constexpr bool fits64(i128 v) { return v >= INT64_MIN && v <= INT64_MAX; }
constexpr bool fits32(i128 v) { return v >= INT32_MIN && v <= INT32_MAX; }
// representable in a rep of kind k (0 = int32, 1 = int64, 2 = double: exactly representable integer window)
constexpr bool fitsk(int k, i128 v) { return k == 0 ? fits32(v) : k == 1 ? fits64(v) : abs128(v) <= P53; }
// rational n/d, d > 0
constexpr i128 q_trunc(i128 n, i128 d) { return n / d; }
constexpr i128 q_floor(i128 n, i128 d)
{
    i128 q = n / d;
    if ((n % d != 0) && (n < 0)) { --q; }
    return q;
}
constexpr i128 q_ceil(i128 n, i128 d)
{
    i128 q = n / d;
    if ((n % d != 0) && (n > 0)) { ++q; }
    return q;
}
constexpr bool q_tie(i128 n, i128 d)
{
    i128 r = n - q_floor(n, d) * d; // 0 <= r < d
    return 2 * r == d;
}
constexpr i128 q_round_even(i128 n, i128 d)
{
    i128 f = q_floor(n, d);
    i128 r = n - f * d;
    if (2 * r < d) { return f; }
    if (2 * r > d) { return f + 1; }
    return (f % 2 == 0) ? f : f + 1;
}
auto s128(i128 v) -> std::string
{
    if (v == 0) { return "0"; }
    bool neg = v < 0;
    std::string s;
    unsigned __int128 u = neg ? static_cast<unsigned __int128>(-(v + 1)) + 1 : static_cast<unsigned __int128>(v);
    while (u != 0) {
        s.insert(s.begin(), static_cast<char>('0' + static_cast<int>(u % 10)));
        u /= 10;
    }
    return neg ? "-" + s : s;
}

// a count of any of the three reps, passed through the non-template driver
struct Num {
    i64 i{0};
    f64 f{0};
};
template <typename R>
inline constexpr int kind_of = std::is_floating_point_v<R> ? 2 : (sizeof(R) == 4 ? 0 : 1);
template <typename R>
constexpr auto get(Num n) -> R
{
    if constexpr (std::is_floating_point_v<R>) {
        return static_cast<R>(n.f);
    } else {
        return static_cast<R>(n.i);
    }
}
template <typename R>
constexpr auto put(R v) -> Num
{
    if constexpr (std::is_floating_point_v<R>) {
        return Num{0, static_cast<f64>(v)};
    } else {
        return Num{static_cast<i64>(v), 0};
    }
}
// kind tag for an arbitrary type (3 = something else: reported as a type mismatch)
template <typename T>
inline constexpr int tkind = std::is_same_v<T, i32> ? 0 : std::is_same_v<T, i64> ? 1 : std::is_same_v<T, f64> ? 2 : std::is_same_v<T, long long> ? 4 : 3;

auto kname(int k) -> char const* { return k == 0 ? "int32" : k == 1 ? "int64" : k == 2 ? "double" : "?"; }
auto nstr(int k, Num v) -> std::string
{
    if (k == 2) {
        char b[64];
        std::snprintf(b, sizeof b, "%.17g", v.f);
        return b;
    }
    return std::to_string(v.i);
}
auto nsame(int k, Num a, Num b) -> bool { return k == 2 ? std::bit_cast<std::uint64_t>(a.f) == std::bit_cast<std::uint64_t>(b.f) : a.i == b.i; }
// value equality (exact oracle: the rational value has no signed zero)
auto xsame(int k, Num a, Num b) -> bool { return k == 2 ? a.f == b.f : a.i == b.i; }
// exact rational x/scale as a count of kind k
auto exact_num(int k, i128 x, i64 scale) -> Num
{
    if (k == 2) { return Num{0, static_cast<f64>(static_cast<i64>(x)) / static_cast<f64>(scale)}; }
    return Num{static_cast<i64>(x), 0};
}

// ------------------------------------------------------------------------------------------------ periods, rep combinations
template <int I>
struct Per;
#define C12_PER(I, N, D)                                                                                               \
    template <>                                                                                                        \
    struct Per<I> {                                                                                                    \
        using e = etl::ratio<N, D>;                                                                                    \
        using s = std::ratio<N, D>;                                                                                    \
    };
C12_PER(0, 1, 1000000000)
C12_PER(1, 1, 1000000)
C12_PER(2, 1, 1000)
C12_PER(3, 1, 1)
C12_PER(4, 60, 1)
C12_PER(5, 3600, 1)
C12_PER(6, 86400, 1)
C12_PER(7, 1, 3)
C12_PER(8, 5, 7)
C12_PER(9, 1001, 30000)
constexpr int NPER      = 10;
constexpr i64 PN[NPER]  = {1, 1, 1, 1, 60, 3600, 86400, 1, 5, 1001};
constexpr i64 PD[NPER]  = {1000000000, 1000000, 1000, 1, 1, 1, 1, 3, 7, 30000};
auto per_name(int i) -> std::string { return "ratio<" + std::to_string(PN[i]) + "," + std::to_string(PD[i]) + ">"; }

template <int C>
struct Combo;
#define C12_COMBO(C, A, B)                                                                                             \
    template <>                                                                                                        \
    struct Combo<C> {                                                                                                  \
        using r1 = A;                                                                                                  \
        using r2 = B;                                                                                                  \
    };
C12_COMBO(0, i64, i64)
C12_COMBO(1, i32, i32)
C12_COMBO(2, i32, i64)
C12_COMBO(3, i64, i32)
C12_COMBO(4, f64, f64)
C12_COMBO(5, i64, f64)
C12_COMBO(6, f64, i64)
constexpr int NCOMBO       = 7;
constexpr int CK1[NCOMBO]  = {1, 0, 0, 1, 2, 1, 2};
constexpr int CK2[NCOMBO]  = {1, 0, 1, 0, 2, 2, 1};

// ------------------------------------------------------------------------------------------------ the two libraries
struct LibE {
    template <typename R, int I>
    using dur = ec::duration<R, typename Per<I>::e>;
    template <typename A, typename B>
    using ct = etl::common_type_t<A, B>;
    template <typename D>
    using tp = ec::time_point<ec::system_clock, D>;
    template <typename To, typename D>
    static constexpr auto cast(D const& d) { return ec::duration_cast<To>(d); }
    template <typename To, typename D>
    static constexpr auto floor(D const& d) { return ec::floor<To>(d); }
    template <typename To, typename D>
    static constexpr auto ceil(D const& d) { return ec::ceil<To>(d); }
    template <typename To, typename D>
    static constexpr auto round(D const& d) { return ec::round<To>(d); }
    template <typename D>
    static constexpr auto abs(D const& d) { return ec::abs(d); }
};
struct LibS {
    template <typename R, int I>
    using dur = sc::duration<R, typename Per<I>::s>;
    template <typename A, typename B>
    using ct = std::common_type_t<A, B>;
    template <typename D>
    using tp = sc::time_point<sc::system_clock, D>;
    template <typename To, typename D>
    static constexpr auto cast(D const& d) { return sc::duration_cast<To>(d); }
    template <typename To, typename D>
    static constexpr auto floor(D const& d) { return sc::floor<To>(d); }
    template <typename To, typename D>
    static constexpr auto ceil(D const& d) { return sc::ceil<To>(d); }
    template <typename To, typename D>
    static constexpr auto round(D const& d) { return sc::round<To>(d); }
    template <typename D>
    static constexpr auto abs(D const& d) { return sc::abs(d); }
};

// compile-time facts of one library about one group, reported at run time
struct Facts {
    long long ct_num, ct_den;   // period of the common type
    int ct_rep;                 // kind of its rep
    long long p1_num, p1_den;   // period member of the first duration
    int r1;                     // rep member of the first duration
    bool convertible, constructible; // D1 -> D2
    bool from_scalar[6];        // D1 constructible from / convertible from int32, int64, double
    int cast_rep;               // type of duration_cast<D2>(D1).count()
    long long plus_num, plus_den;
    int plus_rep;               // D1 + D2
    long long mod_num, mod_den;
    int mod_rep;                // D1 % D2 (integers)
    int div_type;               // D1 / D2
    unsigned member_mask;       // which of the member operations below exist for this group (same types only)
    unsigned member_types;      // bit b set: the result type of member operation b is exactly what [time.duration] says
};
// member operations of duration (0..9) and time_point (10..15); 0..7 and 10..13 must return *this by reference
// (duration& / time_point&), the postfix forms (8, 9, 14, 15) return the old value by value
constexpr int NMEMBER = 16;
char const* const MEMBER_NAME[NMEMBER] = {"++d", "--d", "d += duration", "d -= duration", "d *= rep", "d /= rep", "d %= rep", "d %= duration", "d++", "d--", "tp += duration", "tp -= duration", "++tp", "--tp", "tp++", "tp--"};
constexpr unsigned MEMBER_BY_REF = 0x3CFFU; // bits 0..7 and 10..13
constexpr int NCHAIN = 20;
char const* const CHAIN_NAME[NCHAIN] = {"(d += p) -= o", "++(d += p)", "--(d -= p)", "(d *= 3) -= p", "(d /= 3) += p", "(++d) += p", "(--d) -= p", "((d += p) -= o) *= 3", "auto&& r = (d += p); ++r", "(d %= p) += o",
    "auto&& r = (d %= p); ++r", "(d %= 3) -= o", "value of d++", "d after d++", "value of d--", "d after d--", "(tp += p) -= o", "++(tp += p)", "--(tp -= p)", "auto&& r = (tp += p); ++r"};

// thin wrappers; every function takes/returns Num so that the driver is not a template
struct OpsTable {
    Facts facts;
    Num (*cast)(Num);
    Num (*floor)(Num);
    Num (*ceil)(Num);
    Num (*round)(Num);
    Num (*common1)(Num);
    Num (*common2)(Num);
    Num (*convert)(Num);
    void (*plus_minus)(Num, Num, Num*);   // out[0] = a + b, out[1] = a - b
    void (*div_mod)(Num, Num, Num*);      // out[0] = a / b, out[1] = (a % b).count() (integers only)
    unsigned (*cmp)(Num, Num);            // bit o: == != < <= > >=
    unsigned (*tp_cmp)(Num, Num);
    void (*tp_fcr)(Num, Num*);            // floor, ceil, round of a time_point
    void (*tp_misc)(Num, Num*);           // time_since_epoch, default, min, max
    void (*tp_members)(Num, Num, Num*);   // += -= ++ -- (10 values)
    void (*unary)(int, Num, Num, Num*);   // see driver
    void (*members)(Num, Num, Num*, unsigned*); // chained member operations (NCHAIN final values) and the identity bits
};

template <typename L, typename R1, typename R2, int I, int J, bool WithTP>
struct Ops {
    using D1 = typename L::template dur<R1, I>;
    using D2 = typename L::template dur<R2, J>;
    using CT = typename L::template ct<D1, D2>;
    using RC = typename CT::rep;
    using T1 = typename L::template tp<D1>;
    using T2 = typename L::template tp<D2>;
    static constexpr bool is_int = !std::is_floating_point_v<RC>;
    static constexpr bool to_int = !std::is_floating_point_v<R2>;
    static constexpr bool same12 = I == J && std::is_same_v<R1, R2>;

    static auto d1(Num c) -> D1 { return D1{get<R1>(c)}; }
    static auto d2(Num c) -> D2 { return D2{get<R2>(c)}; }

    static auto cast(Num c) -> Num { return put(L::template cast<D2>(d1(c)).count()); }
    static auto floor(Num c) -> Num { return put(L::template floor<D2>(d1(c)).count()); }
    static auto ceil(Num c) -> Num { return put(L::template ceil<D2>(d1(c)).count()); }
    static auto round(Num c) -> Num
    {
        if constexpr (to_int) {
            return put(L::template round<D2>(d1(c)).count());
        } else {
            return c;
        }
    }
    static auto common1(Num c) -> Num { return put(CT(d1(c)).count()); }
    static auto common2(Num c) -> Num { return put(CT(d2(c)).count()); }
    static auto convert(Num c) -> Num
    {
        if constexpr (std::is_constructible_v<D2, D1>) {
            return put(D2(d1(c)).count());
        } else {
            return c;
        }
    }
    static void plus_minus(Num a, Num b, Num* out)
    {
        out[0] = put((d1(a) + d2(b)).count());
        out[1] = put((d1(a) - d2(b)).count());
    }
    static void div_mod(Num a, Num b, Num* out)
    {
        out[0] = put(d1(a) / d2(b));
        if constexpr (is_int) { out[1] = put((d1(a) % d2(b)).count()); }
    }
    static auto cmp(Num a, Num b) -> unsigned
    {
        auto const x = d1(a);
        auto const y = d2(b);
        return (x == y ? 1U : 0U) | (x != y ? 2U : 0U) | (x < y ? 4U : 0U) | (x <= y ? 8U : 0U) | (x > y ? 16U : 0U) | (x >= y ? 32U : 0U);
    }
    static auto tp_cmp(Num a, Num b) -> unsigned
    {
        if constexpr (WithTP) {
            T1 const x{d1(a)};
            T2 const y{d2(b)};
            return (x == y ? 1U : 0U) | (x != y ? 2U : 0U) | (x < y ? 4U : 0U) | (x <= y ? 8U : 0U) | (x > y ? 16U : 0U) | (x >= y ? 32U : 0U);
        } else {
            (void)a;
            (void)b;
            return 0;
        }
    }
    static void tp_fcr(Num a, Num* out)
    {
        if constexpr (WithTP) {
            T1 const x{d1(a)};
            out[0] = put(L::template floor<D2>(x).time_since_epoch().count());
            out[1] = put(L::template ceil<D2>(x).time_since_epoch().count());
            if constexpr (to_int) { out[2] = put(L::template round<D2>(x).time_since_epoch().count()); }
        } else {
            (void)a;
            (void)out;
        }
    }
    static void tp_misc(Num a, Num* out)
    {
        if constexpr (WithTP) {
            out[0] = put(T1{d1(a)}.time_since_epoch().count());
            out[1] = put(T1{}.time_since_epoch().count());
            out[2] = put(T1::min().time_since_epoch().count());
            out[3] = put(T1::max().time_since_epoch().count());
        } else {
            (void)a;
            (void)out;
        }
    }
    static void tp_members(Num a, Num s, Num* out)
    {
        if constexpr (same12 && WithTP) {
            T1 p{d1(a)}, q{d1(a)}, r{d1(a)}, u{d1(a)}, w{d1(a)}, z{d1(a)};
            p += d1(s);
            q -= d1(s);
            out[0] = put(p.time_since_epoch().count());
            out[1] = put(q.time_since_epoch().count());
            out[2] = put((++r).time_since_epoch().count());
            out[3] = put((--u).time_since_epoch().count());
            out[4] = put((w++).time_since_epoch().count());
            out[5] = put((z--).time_since_epoch().count());
            out[6] = put(r.time_since_epoch().count());
            out[7] = put(u.time_since_epoch().count());
            out[8] = put(w.time_since_epoch().count());
            out[9] = put(z.time_since_epoch().count());
        }
    }
    // which: 0 count,+,zero,min,max | 1 -,abs | 2 ++/-- | 3 += -= | 4 *= | 5 /= | 6 %= scalar, %= duration
    static void unary(int which, Num a, Num s, Num* out)
    {
        if constexpr (same12) {
            auto const sc_ = get<R1>(s);
            switch (which) {
            case 0:
                out[0] = put(d1(a).count());
                out[1] = put((+d1(a)).count());
                out[2] = put(D1::zero().count());
                out[3] = put(D1::min().count());
                out[4] = put(D1::max().count());
                break;
            case 1:
                out[0] = put((-d1(a)).count());
                out[1] = put(L::abs(d1(a)).count());
                break;
            case 2: {
                D1 p{d1(a)}, q{d1(a)}, r{d1(a)}, u{d1(a)};
                out[0] = put((++p).count());
                out[1] = put((--q).count());
                out[2] = put((r++).count());
                out[3] = put((u--).count());
                out[4] = put(p.count());
                out[5] = put(q.count());
                out[6] = put(r.count());
                out[7] = put(u.count());
                break;
            }
            case 3: {
                D1 p{d1(a)}, q{d1(a)};
                p += d1(s);
                q -= d1(s);
                out[0] = put(p.count());
                out[1] = put(q.count());
                break;
            }
            case 4: {
                D1 p{d1(a)};
                p *= sc_;
                out[0] = put(p.count());
                break;
            }
            case 5: {
                D1 p{d1(a)};
                p /= sc_;
                out[0] = put(p.count());
                break;
            }
            case 6:
                if constexpr (!std::is_floating_point_v<R1>) {
                    D1 p{d1(a)}, q{d1(a)};
                    p %= sc_;
                    q %= d1(s);
                    out[0] = put(p.count());
                    out[1] = put(q.count());
                }
                break;
            default: break;
            }
        }
    }

    // does the expression denote the object itself (binds prvalues too, so that a by-value return is a run-time
    // finding and not a compile error)
    template <typename X, typename Y>
    static auto same_object(X&& r, Y& obj) -> bool
    {
        return static_cast<void const*>(std::addressof(r)) == static_cast<void const*>(std::addressof(obj));
    }
    static void members(Num a, Num s, Num* out, unsigned* ident)
    {
        if constexpr (same12) {
            D1 const p = d1(s);
            D1 const o{static_cast<R1>(5)};
            R1 const k = static_cast<R1>(3);
            unsigned id = 0;
            // (b) the returned reference is the object
            {
                D1 d{d1(a)};
                if (same_object(++d, d)) { id |= 1U << 0; }
                if (same_object(--d, d)) { id |= 1U << 1; }
                if (same_object(d += p, d)) { id |= 1U << 2; }
                if (same_object(d -= p, d)) { id |= 1U << 3; }
                if (same_object(d *= k, d)) { id |= 1U << 4; }
                if (same_object(d /= k, d)) { id |= 1U << 5; }
                if constexpr (is_int) {
                    if (same_object(d %= k, d)) { id |= 1U << 6; }
                    if (same_object(d %= p, d)) { id |= 1U << 7; }
                }
            }
            // (c) chains: the final state of d
            auto fin = [&](int i, D1 const& d) { out[i] = put(d.count()); };
            {
                D1 d{d1(a)};
                (d += p) -= o;
                fin(0, d);
            }
            {
                D1 d{d1(a)};
                ++(d += p);
                fin(1, d);
            }
            {
                D1 d{d1(a)};
                --(d -= p);
                fin(2, d);
            }
            {
                D1 d{d1(a)};
                (d *= k) -= p;
                fin(3, d);
            }
            {
                D1 d{d1(a)};
                (d /= k) += p;
                fin(4, d);
            }
            {
                D1 d{d1(a)};
                (++d) += p;
                fin(5, d);
            }
            {
                D1 d{d1(a)};
                (--d) -= p;
                fin(6, d);
            }
            {
                D1 d{d1(a)};
                ((d += p) -= o) *= k;
                fin(7, d);
            }
            {
                D1 d{d1(a)};
                auto&& r = (d += p);
                ++r;
                fin(8, d);
            }
            if constexpr (is_int) {
                {
                    D1 d{d1(a)};
                    (d %= p) += o;
                    fin(9, d);
                }
                {
                    D1 d{d1(a)};
                    auto&& r = (d %= p);
                    ++r;
                    fin(10, d);
                }
                {
                    D1 d{d1(a)};
                    (d %= k) -= o;
                    fin(11, d);
                }
            }
            {
                D1 d{d1(a)};
                auto const old = d++;
                fin(12, old);
                fin(13, d);
            }
            {
                D1 d{d1(a)};
                auto const old = d--;
                fin(14, old);
                fin(15, d);
            }
            if constexpr (WithTP) {
                {
                    T1 t{d1(a)};
                    if (same_object(t += p, t)) { id |= 1U << 10; }
                    if (same_object(t -= p, t)) { id |= 1U << 11; }
                    if (same_object(++t, t)) { id |= 1U << 12; }
                    if (same_object(--t, t)) { id |= 1U << 13; }
                }
                {
                    T1 t{d1(a)};
                    (t += p) -= o;
                    fin(16, t.time_since_epoch());
                }
                {
                    T1 t{d1(a)};
                    ++(t += p);
                    fin(17, t.time_since_epoch());
                }
                {
                    T1 t{d1(a)};
                    --(t -= p);
                    fin(18, t.time_since_epoch());
                }
                {
                    T1 t{d1(a)};
                    auto&& r = (t += p);
                    ++r;
                    fin(19, t.time_since_epoch());
                }
            }
            *ident = id;
        } else {
            (void)a;
            (void)s;
            (void)out;
            *ident = 0;
        }
    }

    static constexpr auto member_facts(Facts& f) -> void
    {
        if constexpr (same12) {
            using DR = D1&;
            using DC = D1 const&;
            unsigned m = 0x33FU; // ++ -- += -= *= /= and the postfix forms
            unsigned t = 0;
            t |= std::is_same_v<decltype(++std::declval<DR>()), D1&> ? 1U << 0 : 0U;
            t |= std::is_same_v<decltype(--std::declval<DR>()), D1&> ? 1U << 1 : 0U;
            t |= std::is_same_v<decltype(std::declval<DR>() += std::declval<DC>()), D1&> ? 1U << 2 : 0U;
            t |= std::is_same_v<decltype(std::declval<DR>() -= std::declval<DC>()), D1&> ? 1U << 3 : 0U;
            t |= std::is_same_v<decltype(std::declval<DR>() *= std::declval<R1 const&>()), D1&> ? 1U << 4 : 0U;
            t |= std::is_same_v<decltype(std::declval<DR>() /= std::declval<R1 const&>()), D1&> ? 1U << 5 : 0U;
            if constexpr (is_int) {
                m |= 0xC0U;
                t |= std::is_same_v<decltype(std::declval<DR>() %= std::declval<R1 const&>()), D1&> ? 1U << 6 : 0U;
                t |= std::is_same_v<decltype(std::declval<DR>() %= std::declval<DC>()), D1&> ? 1U << 7 : 0U;
            }
            t |= std::is_same_v<decltype(std::declval<DR>()++), D1> ? 1U << 8 : 0U;
            t |= std::is_same_v<decltype(std::declval<DR>()--), D1> ? 1U << 9 : 0U;
            if constexpr (WithTP) {
                using TR = T1&;
                m |= 0xFC00U;
                t |= std::is_same_v<decltype(std::declval<TR>() += std::declval<DC>()), T1&> ? 1U << 10 : 0U;
                t |= std::is_same_v<decltype(std::declval<TR>() -= std::declval<DC>()), T1&> ? 1U << 11 : 0U;
                t |= std::is_same_v<decltype(++std::declval<TR>()), T1&> ? 1U << 12 : 0U;
                t |= std::is_same_v<decltype(--std::declval<TR>()), T1&> ? 1U << 13 : 0U;
                t |= std::is_same_v<decltype(std::declval<TR>()++), T1> ? 1U << 14 : 0U;
                t |= std::is_same_v<decltype(std::declval<TR>()--), T1> ? 1U << 15 : 0U;
            }
            f.member_mask  = m;
            f.member_types = t;
        }
    }

    static constexpr auto facts() -> Facts
    {
        Facts f{};
        member_facts(f);
        f.ct_num        = CT::period::num;
        f.ct_den        = CT::period::den;
        f.ct_rep        = tkind<RC>;
        f.p1_num        = D1::period::num;
        f.p1_den        = D1::period::den;
        f.r1            = tkind<typename D1::rep>;
        f.convertible   = std::is_convertible_v<D1, D2>;
        f.constructible = std::is_constructible_v<D2, D1>;
        f.from_scalar[0] = std::is_constructible_v<D1, i32>;
        f.from_scalar[1] = std::is_constructible_v<D1, i64>;
        f.from_scalar[2] = std::is_constructible_v<D1, f64>;
        f.from_scalar[3] = std::is_convertible_v<i32, D1>;
        f.from_scalar[4] = std::is_convertible_v<i64, D1>;
        f.from_scalar[5] = std::is_convertible_v<f64, D1>;
        f.cast_rep      = tkind<decltype(L::template cast<D2>(std::declval<D1>()).count())>;
        using PL        = decltype(std::declval<D1>() + std::declval<D2>());
        f.plus_num      = PL::period::num;
        f.plus_den      = PL::period::den;
        f.plus_rep      = tkind<typename PL::rep>;
        if constexpr (is_int) {
            using MD  = decltype(std::declval<D1>() % std::declval<D2>());
            f.mod_num = MD::period::num;
            f.mod_den = MD::period::den;
            f.mod_rep = tkind<typename MD::rep>;
        }
        f.div_type = tkind<decltype(std::declval<D1>() / std::declval<D2>())>;
        return f;
    }
    static constexpr OpsTable table{facts(), &cast, &floor, &ceil, &round, &common1, &common2, &convert, &plus_minus, &div_mod, &cmp, &tp_cmp, &tp_fcr, &tp_misc, &tp_members, &unary, &members};
};

// ------------------------------------------------------------------------------------------------ group descriptor
struct GroupDesc {
    int C, I, J;
    int k1, k2, kc;   // rep kinds of source, target, common rep
    i64 N, D;         // P1/P2 reduced (conversion factor of duration_cast<To>(From))
    i64 f1, f2;       // P1/CT, P2/CT (integers), CT = ratio<gcd(n1,n2), lcm(d1,d2)>
    i64 ctn, ctd;     // CT
    OpsTable const* e;
    OpsTable const* s;
    bool with_tp;       // time_point operations are instantiated for this group
    char const* broken; // non-null: the group cannot be instantiated (message), with the two lcm operands
    i64 ba, bb;
    [[nodiscard]] auto same12() const -> bool { return I == J && k1 == k2; }
    [[nodiscard]] auto n1() const -> std::string { return std::string("duration<") + kname(k1) + "," + per_name(I) + ">"; }
    [[nodiscard]] auto n2() const -> std::string { return std::string("duration<") + kname(k2) + "," + per_name(J) + ">"; }
};
constexpr auto make_desc(int c, int i, int j) -> GroupDesc
{
    GroupDesc m{};
    m.C   = c;
    m.I   = i;
    m.J   = j;
    m.k1  = CK1[c];
    m.k2  = CK2[c];
    m.kc  = (m.k1 == 2 || m.k2 == 2) ? 2 : (m.k1 == 1 || m.k2 == 1) ? 1 : 0;
    i64 a = PN[i] * PD[j];
    i64 b = PD[i] * PN[j];
    i64 g = std::gcd(a, b);
    m.N   = a / g;
    m.D   = b / g;
    m.ctn = std::gcd(PN[i], PN[j]);
    m.ctd = std::lcm(PD[i], PD[j]);
    m.f1  = (PN[i] / m.ctn) * (m.ctd / PD[i]);
    m.f2  = (PN[j] / m.ctn) * (m.ctd / PD[j]);
    return m;
}

struct Val { // a count: n or n/8
    i64 n;
    int frac;
    [[nodiscard]] auto scale() const -> i64 { return frac ? 8 : 1; }
    [[nodiscard]] auto num(int kind) const -> Num
    {
        if (kind == 2) { return Num{0, frac ? static_cast<f64>(n) / 8.0 : static_cast<f64>(n)}; }
        return Num{n, 0};
    }
};

struct CastDom {
    bool ok;    // no UB in the mandated formula and the result is representable: etl must equal std
    bool exact; // additionally the result must equal the exact rational value
    i128 num, den;
};
auto cast_dom(GroupDesc const& m, Val v) -> CastDom
{
    CastDom d{};
    d.num = i128{v.n} * m.N;
    d.den = i128{v.scale()} * m.D;
    if (m.k1 != 2 && m.k2 != 2) {
        d.ok    = (m.N == 1 || fits64(d.num)) && fitsk(m.k2, q_trunc(d.num, d.den));
        d.exact = d.ok;
    } else if (m.k2 != 2) { // double -> integer: CR = double, final static_cast<to_rep> must be in range
        d.ok    = abs128(q_trunc(d.num, d.den)) < P62 && fitsk(m.k2, q_trunc(d.num, d.den));
        d.exact = d.ok && abs128(d.num) <= P53;
    } else { // -> double
        d.ok    = true;
        d.exact = abs128(d.num) <= P53 && (d.num % m.D == 0);
    }
    return d;
}
auto cast_exact(GroupDesc const& m, Val v, CastDom const& d) -> Num { return m.k2 == 2 ? exact_num(2, d.num / m.D, v.scale()) : exact_num(m.k2, q_trunc(d.num, d.den), 1); }
// are d (count v of P1) and the candidates t-1, t, t+1 (counts of P2) all convertible to the common type?
auto round_dom(GroupDesc const& m, Val v, i128 t) -> bool
{
    i128 A = i128{v.n} * m.f1; // scaled by v.scale()
    if (m.kc != 2) {
        if (!(fits64(A) && fitsk(m.kc, A))) { return false; }
        for (i128 x : {t - 1, t, t + 1}) {
            i128 L = x * m.f2;
            if (!(fitsk(m.k2, x) && fits64(L) && fitsk(m.kc, L) && fitsk(m.kc, A - L) && fitsk(m.kc, L - A))) { return false; }
        }
        return fitsk(m.kc, m.f2);
    }
    if (abs128(A) > P53) { return false; }
    for (i128 x : {t - 1, t, t + 1}) {
        i128 L = x * m.f2 * v.scale();
        if (!(fitsk(m.k2, x) && abs128(L) <= P53 && abs128(A - L) <= P53)) { return false; }
    }
    return true;
}

// ------------------------------------------------------------------------------------------------ counters
enum SubId { S_CAST, S_FLOOR, S_CEIL, S_ROUND, S_COMMON, S_CONVERT, S_UNARY, S_ARITH, S_CMP, S_TP, S_ALIAS, S_MEMBERS, S_COUNT };
char const* const SUBS[S_COUNT] = {"cast", "floor", "ceil", "round", "common", "convert", "unary", "arith", "cmp", "time_point", "alias", "members"};
enum LabId { L_NEG, L_NONINT, L_TIE, L_CAST_DOM, L_ROUND_DOM, L_ARITH_DOM, L_BIG, L_COUNT };
char const* const LABS[L_COUNT] = {"count.negative", "pair.non_integer_ratio", "round.exact_tie", "cast.in_domain", "floor_ceil_round.in_domain", "arith.in_domain", "count.beyond_2^31"};
struct Tally { // plain counters, flushed once per group (vf::eval / vf::label cost a map lookup per call)
    std::uint64_t n[S_COUNT]{};
    std::uint64_t lab[L_COUNT][2]{};
};
Tally g_t;
void lab(LabId l, bool hit)
{
    g_t.lab[l][0] += hit ? 1 : 0;
    g_t.lab[l][1] += 1;
}
void flush_tally()
{
    for (int s = 0; s < S_COUNT; ++s) {
        if (g_t.n[s] != 0) { vf::eval(SUBS[s], g_t.n[s]); }
    }
    for (int l = 0; l < L_COUNT; ++l) {
        if (g_t.lab[l][1] != 0) {
            vf::label(LABS[l], g_t.lab[l][0], g_t.lab[l][1]);
        }
    }
    g_t = Tally{};
}

#define REQUIRE(k, cond, msg)                                                                                          \
    do {                                                                                                               \
        if (!(cond)) {                                                                                                 \
            vf::mismatch((k).sub, (k), (msg));                                                                         \
            return;                                                                                                    \
        }                                                                                                              \
    } while (0)

auto mk(GroupDesc const& g, char const* sub, Val v, i64 c2 = 0) -> Case { return Case{sub, g.C, g.I, g.J, v.n, v.frac, c2}; }

// ------------------------------------------------------------------------------------------------ checks (non-template)
void chk_cast(GroupDesc const& g, Val v)
{
    Case k = mk(g, "cast", v);
    vf::Flight<Case> fl("cast", k);
    auto const dom = cast_dom(g, v);
    lab(L_CAST_DOM, dom.ok);
    if (!dom.ok) { return; }
    Num const c  = v.num(g.k1);
    Num const re = g.e->cast(c);
    Num const rs = g.s->cast(c);
    auto const what = [&] { return std::string("duration_cast<" + g.n2() + ">(" + g.n1() + "(" + nstr(g.k1, c) + "))"); };
    REQUIRE(k, g.e->facts.cast_rep == g.s->facts.cast_rep, what() + ": type of count() differs from std");
    REQUIRE(k, nsame(g.k2, re, rs), what() + ": etl " + nstr(g.k2, re) + " std::chrono " + nstr(g.k2, rs));
    if (dom.exact) {
        Num const ex = cast_exact(g, v, dom);
        REQUIRE(k, xsame(g.k2, re, ex), what() + ": etl " + nstr(g.k2, re) + " exact (" + s128(dom.num) + "/" + s128(dom.den) + " truncated) " + nstr(g.k2, ex));
    }
    ++g_t.n[S_CAST];
    if (v.n == -1999 && v.frac == 0 && g.D != 1) {
        vf::sample("cast", [&] { return what() + " == " + nstr(g.k2, re) + " (exact " + s128(dom.num) + "/" + s128(dom.den) + ")"; });
    }
}

void chk_fcr(GroupDesc const& g, Val v, int which) // 0 floor, 1 ceil, 2 round
{
    char const* sub = which == 0 ? "floor" : which == 1 ? "ceil" : "round";
    Case k          = mk(g, sub, v);
    vf::Flight<Case> fl(sub, k);
    if (which == 2 && g.k2 == 2) { return; } // round<> to a floating-point duration does not exist
    auto const dom = cast_dom(g, v);
    bool ok        = dom.ok && dom.exact && round_dom(g, v, q_trunc(dom.num, dom.den));
    lab(L_ROUND_DOM, ok);
    if (!ok) { return; }
    Num const c  = v.num(g.k1);
    Num const re = which == 0 ? g.e->floor(c) : which == 1 ? g.e->ceil(c) : g.e->round(c);
    Num const rs = which == 0 ? g.s->floor(c) : which == 1 ? g.s->ceil(c) : g.s->round(c);
    Num ex;
    if (g.k2 == 2) {
        // floating-point target: only exactly representable quotients are in the window, the result is the quotient
        ex = cast_exact(g, v, dom);
    } else {
        ex = exact_num(g.k2, which == 0 ? q_floor(dom.num, dom.den) : which == 1 ? q_ceil(dom.num, dom.den) : q_round_even(dom.num, dom.den), 1);
    }
    auto const what = [&] { return std::string(std::string(sub) + "<" + g.n2() + ">(" + g.n1() + "(" + nstr(g.k1, c) + "))"); };
    REQUIRE(k, xsame(g.k2, rs, ex), "oracle disagreement (harness bug): std::chrono::" + what() + " = " + nstr(g.k2, rs) + ", exact " + nstr(g.k2, ex));
    REQUIRE(k, xsame(g.k2, re, ex), what() + ": etl " + nstr(g.k2, re) + " expected " + nstr(g.k2, ex) + " (exact value " + s128(dom.num) + "/" + s128(dom.den) + ")");
    bool const tie = which == 2 && q_tie(dom.num, dom.den);
    if (which == 2) { lab(L_TIE, tie); }
    ++g_t.n[which == 0 ? S_FLOOR : which == 1 ? S_CEIL : S_ROUND];
    if ((tie && (v.n == -7 || v.n == -1995 || v.n == 1500)) || (which != 2 && v.n == -1999 && g.D != 1 && v.frac == 0)) {
        vf::sample(sub, [&] { return what() + " == " + nstr(g.k2, re) + " (exact " + s128(dom.num) + "/" + s128(dom.den) + ")"; });
    }
}

void chk_common(GroupDesc const& g, Val v, i64 c2)
{
    Case k = mk(g, "common", v, c2);
    vf::Flight<Case> fl("common", k);
    auto const& fe = g.e->facts;
    auto const& fs = g.s->facts;
    auto const ctn = [&] { return std::string("common_type_t<" + g.n1() + "," + g.n2() + ">"); };
    // compile-time facts, reported at run time
    REQUIRE(k, fe.ct_num == fs.ct_num && fe.ct_den == fs.ct_den, ctn() + "::period: etl " + std::to_string(fe.ct_num) + "/" + std::to_string(fe.ct_den) + " std " + std::to_string(fs.ct_num) + "/" + std::to_string(fs.ct_den));
    REQUIRE(k, fe.ct_rep == fs.ct_rep && fs.ct_rep == g.kc, ctn() + "::rep differs from std");
    REQUIRE(k, fs.ct_num == g.ctn && fs.ct_den == g.ctd, "harness model of the common period differs from std (harness bug)");
    REQUIRE(k, fe.p1_num == PN[g.I] && fe.p1_den == PD[g.I] && fe.r1 == g.k1, g.n1() + "::period / ::rep members wrong");
    i128 A = i128{v.n} * g.f1;
    i128 B = i128{c2} * g.f2;
    bool okA, okB, exA, exB;
    if (g.kc != 2) {
        okA = fits64(A) && fitsk(g.kc, A);
        okB = fits64(B) && fitsk(g.kc, B) && fitsk(g.k2, c2);
        exA = okA;
        exB = okB;
    } else {
        okA = true;
        okB = g.k2 == 2 ? abs128(c2) <= P53 : fitsk(g.k2, c2);
        exA = abs128(A) <= P53;
        exB = okB && abs128(B) <= P53;
    }
    if (okA) {
        Num const c  = v.num(g.k1);
        Num const re = g.e->common1(c);
        Num const rs = g.s->common1(c);
        auto const what = [&] { return std::string(ctn() + "(" + g.n1() + "(" + nstr(g.k1, c) + ")).count()"); };
        REQUIRE(k, nsame(g.kc, re, rs), what() + ": etl " + nstr(g.kc, re) + " std::chrono " + nstr(g.kc, rs));
        if (exA) { REQUIRE(k, xsame(g.kc, re, exact_num(g.kc, A, v.scale())), what() + ": etl " + nstr(g.kc, re) + " exact " + nstr(g.kc, exact_num(g.kc, A, v.scale()))); }
        ++g_t.n[S_COMMON];
    }
    if (okB) {
        Num const c  = Val{c2, 0}.num(g.k2);
        Num const re = g.e->common2(c);
        Num const rs = g.s->common2(c);
        auto const what = [&] { return std::string(ctn() + "(" + g.n2() + "(" + nstr(g.k2, c) + ")).count()"); };
        REQUIRE(k, nsame(g.kc, re, rs), what() + ": etl " + nstr(g.kc, re) + " std::chrono " + nstr(g.kc, rs));
        if (exB) { REQUIRE(k, xsame(g.kc, re, exact_num(g.kc, B, 1)), what() + ": etl " + nstr(g.kc, re) + " exact " + nstr(g.kc, exact_num(g.kc, B, 1))); }
        ++g_t.n[S_COMMON];
    }
}

void chk_convert(GroupDesc const& g, Val v)
{
    Case k = mk(g, "convert", v);
    vf::Flight<Case> fl("convert", k);
    auto const& fe = g.e->facts;
    auto const& fs = g.s->facts;
    REQUIRE(k, fe.convertible == fs.convertible && fe.constructible == fs.constructible,
        g.n1() + " -> " + g.n2() + ": is_convertible etl " + std::to_string(fe.convertible) + " std " + std::to_string(fs.convertible) + ", is_constructible etl " + std::to_string(fe.constructible) + " std "
            + std::to_string(fs.constructible));
    for (int t = 0; t < 6; ++t) {
        REQUIRE(k, fe.from_scalar[t] == fs.from_scalar[t], g.n1() + (t < 3 ? ": is_constructible from " : ": is_convertible from ") + kname(t % 3) + ": etl " + std::to_string(fe.from_scalar[t]) + " std " + std::to_string(fs.from_scalar[t]));
    }
    if (!fe.constructible) { return; }
    auto const dom = cast_dom(g, v);
    if (!dom.ok) { return; }
    Num const c  = v.num(g.k1);
    Num const re = g.e->convert(c);
    Num const rs = g.s->convert(c);
    auto const what = [&] { return std::string(g.n2() + "(" + g.n1() + "(" + nstr(g.k1, c) + ")).count() [converting constructor]"); };
    REQUIRE(k, nsame(g.k2, re, rs), what() + ": etl " + nstr(g.k2, re) + " std::chrono " + nstr(g.k2, rs));
    if (dom.exact) { REQUIRE(k, xsame(g.k2, re, cast_exact(g, v, dom)), what() + ": etl " + nstr(g.k2, re) + " exact " + nstr(g.k2, cast_exact(g, v, dom))); }
    ++g_t.n[S_CONVERT];
}

auto cmp_bits(i128 A, i128 B) -> unsigned { return (A == B ? 1U : 0U) | (A != B ? 2U : 0U) | (A < B ? 4U : 0U) | (A <= B ? 8U : 0U) | (A > B ? 16U : 0U) | (A >= B ? 32U : 0U); }
auto bits_str(unsigned b) -> std::string
{
    char const* const ops[6] = {"==", "!=", "<", "<=", ">", ">="};
    std::string s;
    for (int o = 0; o < 6; ++o) { s += std::string(o ? " " : "") + ops[o] + ":" + ((b >> o) & 1U ? "1" : "0"); }
    return s;
}

// is the second count usable as a value of rep kind k2?
auto c2_ok(GroupDesc const& g, i64 c2) -> bool { return g.k2 == 2 ? abs128(c2) <= P53 : fitsk(g.k2, c2); }

struct BinDom {
    bool ok, exact;
    i128 A, B; // both scaled by v.scale()
};
auto bin_dom(GroupDesc const& g, Val v, i64 c2) -> BinDom
{
    BinDom d{};
    d.A = i128{v.n} * g.f1;
    d.B = i128{c2} * g.f2 * v.scale();
    if (g.kc != 2) {
        d.ok    = fits64(d.A) && fitsk(g.kc, d.A) && fits64(d.B) && fitsk(g.kc, d.B);
        d.exact = d.ok;
    } else {
        d.ok    = true;
        d.exact = abs128(d.A) <= P53 && abs128(d.B) <= P53;
    }
    return d;
}

void chk_cmp(GroupDesc const& g, Val v, i64 c2)
{
    Case k = mk(g, "cmp", v, c2);
    vf::Flight<Case> fl("cmp", k);
    if (!c2_ok(g, c2)) { return; }
    auto const d = bin_dom(g, v, c2);
    if (!d.ok) { return; }
    Num const a = v.num(g.k1);
    Num const b = Val{c2, 0}.num(g.k2);
    unsigned const e = g.e->cmp(a, b);
    unsigned const s = g.s->cmp(a, b);
    auto const what = [&] { return std::string(g.n1() + "(" + nstr(g.k1, a) + ") <op> " + g.n2() + "(" + nstr(g.k2, b) + ")"); };
    REQUIRE(k, e == s, what() + ": etl " + bits_str(e) + " std::chrono " + bits_str(s));
    if (d.exact) { REQUIRE(k, e == cmp_bits(d.A, d.B), what() + ": etl " + bits_str(e) + " exact " + bits_str(cmp_bits(d.A, d.B))); }
    g_t.n[S_CMP] += 6;
}

void chk_arith(GroupDesc const& g, Val v, i64 c2)
{
    Case k = mk(g, "arith", v, c2);
    vf::Flight<Case> fl("arith", k);
    if (!c2_ok(g, c2)) { return; }
    auto const d = bin_dom(g, v, c2);
    lab(L_ARITH_DOM, d.ok);
    if (!d.ok) { return; }
    auto const& fe = g.e->facts;
    auto const& fs = g.s->facts;
    REQUIRE(k, fe.plus_num == fs.plus_num && fe.plus_den == fs.plus_den && fe.plus_rep == fs.plus_rep, "type of " + g.n1() + " + " + g.n2() + " differs from std");
    REQUIRE(k, fe.div_type == fs.div_type, "type of " + g.n1() + " / " + g.n2() + " differs from std");
    REQUIRE(k, fe.mod_num == fs.mod_num && fe.mod_den == fs.mod_den && fe.mod_rep == fs.mod_rep, "type of " + g.n1() + " % " + g.n2() + " differs from std");
    Num const a   = v.num(g.k1);
    Num const b   = Val{c2, 0}.num(g.k2);
    auto const nl = [&] { return std::string(g.n1() + "(" + nstr(g.k1, a) + ") "); };
    auto const nr = [&] { return std::string(" " + g.n2() + "(" + nstr(g.k2, b) + ")"); };
    if (g.kc == 2 || (fitsk(g.kc, d.A + d.B) && fitsk(g.kc, d.A - d.B))) {
        Num e[2], s[2];
        g.e->plus_minus(a, b, e);
        g.s->plus_minus(a, b, s);
        REQUIRE(k, nsame(g.kc, e[0], s[0]), nl() + "+" + nr() + ": etl " + nstr(g.kc, e[0]) + " std::chrono " + nstr(g.kc, s[0]));
        REQUIRE(k, nsame(g.kc, e[1], s[1]), nl() + "-" + nr() + ": etl " + nstr(g.kc, e[1]) + " std::chrono " + nstr(g.kc, s[1]));
        if (d.exact && (g.kc != 2 || (abs128(d.A + d.B) <= P53 && abs128(d.A - d.B) <= P53))) {
            REQUIRE(k, xsame(g.kc, e[0], exact_num(g.kc, d.A + d.B, v.scale())), nl() + "+" + nr() + ": etl " + nstr(g.kc, e[0]) + " exact " + nstr(g.kc, exact_num(g.kc, d.A + d.B, v.scale())));
            REQUIRE(k, xsame(g.kc, e[1], exact_num(g.kc, d.A - d.B, v.scale())), nl() + "-" + nr() + ": etl " + nstr(g.kc, e[1]) + " exact " + nstr(g.kc, exact_num(g.kc, d.A - d.B, v.scale())));
        }
        g_t.n[S_ARITH] += 2;
    }
    if (d.B != 0) {
        if (g.kc != 2) {
            if (d.A == (g.kc == 0 ? i128{INT32_MIN} : i128{INT64_MIN}) && d.B == -1) { return; }
            Num e[2], s[2];
            g.e->div_mod(a, b, e);
            g.s->div_mod(a, b, s);
            REQUIRE(k, e[0].i == s[0].i && e[0].i == static_cast<i64>(d.A / d.B), nl() + "/" + nr() + ": etl " + nstr(1, e[0]) + " std::chrono " + nstr(1, s[0]) + " exact " + s128(d.A / d.B));
            REQUIRE(k, e[1].i == s[1].i && e[1].i == static_cast<i64>(d.A % d.B), nl() + "%" + nr() + ": etl " + nstr(1, e[1]) + " std::chrono " + nstr(1, s[1]) + " exact " + s128(d.A % d.B));
            g_t.n[S_ARITH] += 2;
        } else {
            Num e[2], s[2];
            g.e->div_mod(a, b, e);
            g.s->div_mod(a, b, s);
            REQUIRE(k, nsame(2, e[0], s[0]), nl() + "/" + nr() + ": etl " + nstr(2, e[0]) + " std::chrono " + nstr(2, s[0]));
            if (d.exact && d.A % d.B == 0 && abs128(d.A / d.B) <= P53) { REQUIRE(k, xsame(2, e[0], exact_num(2, d.A / d.B, 1)), nl() + "/" + nr() + ": etl " + nstr(2, e[0]) + " exact " + s128(d.A / d.B)); }
            g_t.n[S_ARITH] += 1;
        }
    }
}

void chk_unary(GroupDesc const& g, Val v, i64 c2)
{
    if (!g.same12()) { return; }
    Case k = mk(g, "unary", v, c2);
    vf::Flight<Case> fl("unary", k);
    int const K = g.k1;
    if (!c2_ok(g, c2)) { return; }
    auto lim    = [K](i128 x) { return K == 2 ? abs128(x) <= (P53 << 3) : fitsk(K, x); };
    Num const a = v.num(K);
    Num const s = Val{c2, 0}.num(K);
    i128 const n  = v.n;                   // scaled value
    i128 const m2 = i128{c2} * v.scale();  // scaled scalar
    auto const nm = [&] { return std::string(g.n1() + "(" + nstr(K, a) + ")"); };
    Num e[10], r[10];
    auto run = [&](int which, int cnt, char const* label) -> bool {
        g.e->unary(which, a, s, e);
        g.s->unary(which, a, s, r);
        for (int t = 0; t < cnt; ++t) {
            if (!nsame(K, e[t], r[t])) {
                std::string es, rs;
                for (int u = 0; u < cnt; ++u) {
                    es += " " + nstr(K, e[u]);
                    rs += " " + nstr(K, r[u]);
                }
                vf::mismatch("unary", k, std::string(label) + " with d = " + nm() + ", operand " + nstr(K, s) + ": etl" + es + " std::chrono" + rs);
                return false;
            }
        }
        return true;
    };
    if (!run(0, 5, "count(), +d, zero(), min(), max()")) { return; }
    REQUIRE(k, nsame(K, e[0], a), "count() of " + nm() + " is " + nstr(K, e[0]));
    if (lim(-n)) {
        if (!run(1, 2, "-d, abs(d)")) { return; }
        Num const xn = exact_num(K, -n, v.scale());
        Num const xa = exact_num(K, abs128(n), v.scale());
        {
            REQUIRE(k, xsame(K, e[0], xn) && xsame(K, e[1], xa), "-d, abs(d) for d = " + nm() + ": etl " + nstr(K, e[0]) + " " + nstr(K, e[1]) + " exact " + nstr(K, xn) + " " + nstr(K, xa));
        }
    }
    if (lim(n + v.scale()) && lim(n - v.scale())) {
        if (!run(2, 8, "++d, --d, d++, d-- and the values left behind")) { return; }
    }
    if (lim(n + m2) && lim(n - m2)) {
        if (!run(3, 2, "d += operand, d -= operand")) { return; }
        REQUIRE(k, xsame(K, e[0], exact_num(K, n + m2, v.scale())) && xsame(K, e[1], exact_num(K, n - m2, v.scale())), nm() + " += / -= " + nstr(K, s) + ": etl " + nstr(K, e[0]) + " " + nstr(K, e[1]));
    }
    if (K == 2 ? abs128(n * c2) <= P53 : lim(n * c2)) {
        if (!run(4, 1, "d *= operand")) { return; }
        REQUIRE(k, xsame(K, e[0], exact_num(K, n * c2, v.scale())), nm() + " *= " + nstr(K, s) + ": etl " + nstr(K, e[0]));
    }
    if (c2 != 0 && (K == 2 || lim(n / c2))) {
        if (!run(5, 1, "d /= operand")) { return; }
        if (K != 2) {
            REQUIRE(k, e[0].i == static_cast<i64>(n / c2), nm() + " /= " + nstr(K, s) + ": etl " + nstr(K, e[0]));
            if (!run(6, 2, "d %= operand, d %= duration(operand)")) { return; }
            REQUIRE(k, e[0].i == static_cast<i64>(n % c2) && e[1].i == static_cast<i64>(n % c2), nm() + " %= " + nstr(K, s) + ": etl " + nstr(K, e[0]) + " " + nstr(K, e[1]) + " exact " + s128(n % c2));
        }
    }
    ++g_t.n[S_UNARY];
}

void chk_tp(GroupDesc const& g, Val v, i64 c2, bool full = true)
{
    Case k = mk(g, "time_point", v, c2);
    vf::Flight<Case> fl("time_point", k);
    Num const a   = v.num(g.k1);
    auto const nm = [&] { return std::string("time_point<system_clock," + g.n1() + ">(" + nstr(g.k1, a) + ")"); };
    if (full) {
        Num e[4], s[4];
        g.e->tp_misc(a, e);
        g.s->tp_misc(a, s);
        REQUIRE(k, nsame(g.k1, e[0], a) && nsame(g.k1, e[0], s[0]) && nsame(g.k1, e[1], s[1]), nm() + ".time_since_epoch() / default constructed: etl " + nstr(g.k1, e[0]) + " " + nstr(g.k1, e[1]));
        REQUIRE(k, nsame(g.k1, e[2], s[2]) && nsame(g.k1, e[3], s[3]), "time_point::min()/max(): etl " + nstr(g.k1, e[2]) + " " + nstr(g.k1, e[3]) + " std " + nstr(g.k1, s[2]) + " " + nstr(g.k1, s[3]));
        g_t.n[S_TP] += 2;
    }
    if (c2_ok(g, c2)) {
        auto const d = bin_dom(g, v, c2);
        if (d.ok) {
            Num const b      = Val{c2, 0}.num(g.k2);
            unsigned const e = g.e->tp_cmp(a, b);
            unsigned const s = g.s->tp_cmp(a, b);
            auto const what = [&] { return std::string(nm() + " <op> time_point<system_clock," + g.n2() + ">(" + nstr(g.k2, b) + ")"); };
            REQUIRE(k, e == s && (!d.exact || e == cmp_bits(d.A, d.B)), what() + ": etl " + bits_str(e) + " std::chrono " + bits_str(s));
            g_t.n[S_TP] += 6;
        }
    }
    if (full) {
        auto const dom = cast_dom(g, v);
        bool ok        = dom.ok && dom.exact && round_dom(g, v, q_trunc(dom.num, dom.den));
        if (ok) {
            Num e[3], s[3], x[3];
            g.e->tp_fcr(a, e);
            g.s->tp_fcr(a, s);
            int const cnt = g.k2 == 2 ? 2 : 3;
            if (g.k2 == 2) {
                x[0] = x[1] = cast_exact(g, v, dom);
            } else {
                x[0] = exact_num(g.k2, q_floor(dom.num, dom.den), 1);
                x[1] = exact_num(g.k2, q_ceil(dom.num, dom.den), 1);
                x[2] = exact_num(g.k2, q_round_even(dom.num, dom.den), 1);
            }
            for (int t = 0; t < cnt; ++t) {
                REQUIRE(k, nsame(g.k2, e[t], s[t]) && xsame(g.k2, e[t], x[t]),
                    std::string(t == 0 ? "floor" : t == 1 ? "ceil" : "round") + "<" + g.n2() + ">(" + nm() + "): etl " + nstr(g.k2, e[t]) + " std::chrono " + nstr(g.k2, s[t]) + " exact " + nstr(g.k2, x[t]));
            }
            g_t.n[S_TP] += static_cast<std::uint64_t>(cnt);
        }
    }
    if (full && g.same12() && c2_ok(g, c2)) {
        int const K = g.k1;
        auto lim    = [K](i128 x) { return K == 2 ? abs128(x) <= P53 : fitsk(K, x); };
        i128 n      = v.n;
        i128 m2     = i128{c2} * v.scale();
        if (lim(n + m2) && lim(n - m2) && lim(n + v.scale()) && lim(n - v.scale())) {
            Num const s = Val{c2, 0}.num(K);
            Num e[10], r[10];
            g.e->tp_members(a, s, e);
            g.s->tp_members(a, s, r);
            for (int t = 0; t < 10; ++t) {
                REQUIRE(k, nsame(K, e[t], r[t]), nm() + " members (+= -= ++pre --pre post++ post-- and the values left behind), item " + std::to_string(t) + " with operand " + nstr(K, s) + ": etl " + nstr(K, e[t]) + " std::chrono " + nstr(K, r[t]));
            }
            g_t.n[S_TP] += 6;
        }
    }
}

// counts of the second operand derived from the first: the P2 tick at / next to the same instant, mirrored,
// the same number, and small constants
void second_counts(GroupDesc const& g, Val v, i64 (&out)[8], int& n)
{
    i128 q   = q_floor(i128{v.n} * g.N, i128{v.scale()} * g.D);
    n        = 0;
    auto add = [&](i128 x) {
        if (!fits64(x)) { return; }
        for (int t = 0; t < n; ++t) {
            if (out[t] == static_cast<i64>(x)) { return; }
        }
        out[n++] = static_cast<i64>(x);
    };
    add(q);
    add(q + 1);
    add(-q);
    add(v.n);
    add(-7);
    add(0);
}

// member operations: result types (compile-time facts reported here), identity of the returned reference, chains
void chk_members(GroupDesc const& g, Val v, i64 c2)
{
    if (!g.same12()) { return; }
    Case k = mk(g, "members", v, c2);
    vf::Flight<Case> fl("members", k);
    auto const& fe = g.e->facts;
    auto const& fs = g.s->facts;
    REQUIRE(k, fe.member_mask == fs.member_mask, "harness bug: member operation sets of etl and std differ");
#ifndef C12_SKIP_MEMBER_TYPES // (test hook: lets the identity and chain checks below be exercised on their own)
    for (int b = 0; b < NMEMBER; ++b) {
        if (((fe.member_mask >> b) & 1U) == 0) { continue; }
        bool const byref = ((MEMBER_BY_REF >> b) & 1U) != 0;
        REQUIRE(k, ((fs.member_types >> b) & 1U) != 0, std::string("harness bug: std::chrono result type of ") + MEMBER_NAME[b] + " is not the expected one");
        REQUIRE(k, ((fe.member_types >> b) & 1U) != 0,
            std::string("decltype(") + MEMBER_NAME[b] + ") for " + g.n1() + " is not " + (byref ? (b < 10 ? "duration&" : "time_point&") : (b < 10 ? "duration (the old value, by value)" : "time_point (the old value, by value)"))
                + " as in std::chrono");
    }
#endif
    int const K = g.k1;
    if (c2 == 0 || abs128(v.n) > 100000000 || abs128(c2) > 100000000) { return; }
    Num const a = v.num(K);
    Num const s = Val{c2, 0}.num(K);
    Num e[NCHAIN], r[NCHAIN];
    unsigned ie = 0, is = 0;
    g.e->members(a, s, e, &ie);
    g.s->members(a, s, r, &is);
    unsigned const want = fe.member_mask & MEMBER_BY_REF;
    REQUIRE(k, is == want, "harness bug: std::chrono member operations do not return the object");
    for (int b = 0; b < NMEMBER; ++b) {
        if (((want >> b) & 1U) != 0) {
            REQUIRE(k, ((ie >> b) & 1U) != 0, std::string("the result of ") + MEMBER_NAME[b] + " is not the object it was applied to (&(" + MEMBER_NAME[b] + ") != &object) for " + g.n1() + "(" + nstr(K, a) + "), operand " + nstr(K, s));
        }
    }
    for (int i = 0; i < NCHAIN; ++i) {
        bool const applies = i < 9 || (i >= 12 && i < 16) || (i >= 9 && i < 12 && K != 2) || (i >= 16 && g.with_tp);
        if (!applies) { continue; }
        REQUIRE(k, nsame(K, e[i], r[i]), std::string("chained member operations: ") + CHAIN_NAME[i] + " with d = " + g.n1() + "(" + nstr(K, a) + "), p = " + nstr(K, s) + ", o = 5: etl leaves " + nstr(K, e[i]) + ", std::chrono " + nstr(K, r[i]));
    }
    ++g_t.n[S_MEMBERS];
}

void run_one(GroupDesc const& g, int sub, Val v, i64 c2)
{
    switch (sub) {
    case S_MEMBERS: chk_members(g, v, c2); break;
    case S_CAST: chk_cast(g, v); break;
    case S_FLOOR: chk_fcr(g, v, 0); break;
    case S_CEIL: chk_fcr(g, v, 1); break;
    case S_ROUND: chk_fcr(g, v, 2); break;
    case S_COMMON: chk_common(g, v, c2); break;
    case S_CONVERT: chk_convert(g, v); break;
    case S_UNARY: chk_unary(g, v, c2); break;
    case S_ARITH: chk_arith(g, v, c2); break;
    case S_CMP: chk_cmp(g, v, c2); break;
    case S_TP:
        if (g.with_tp) { chk_tp(g, v, c2); }
        break;
    default: break;
    }
}

void run_all(GroupDesc const& g, Val v)
{
    chk_cast(g, v);
    chk_fcr(g, v, 0);
    chk_fcr(g, v, 1);
    chk_fcr(g, v, 2);
    chk_convert(g, v);
    i64 cs[8];
    int n = 0;
    second_counts(g, v, cs, n);
    for (int t = 0; t < n; ++t) {
        chk_arith(g, v, cs[t]);
        chk_cmp(g, v, cs[t]);
        if (t < 2 && g.with_tp) { chk_tp(g, v, cs[t], t == 0); }
        if (t == 0 || t == 3) { chk_common(g, v, cs[t]); }
        chk_unary(g, v, cs[t]);
        chk_members(g, v, cs[t]);
    }
    lab(L_NEG, v.n < 0);
    lab(L_NONINT, g.D != 1);
    lab(L_BIG, abs128(v.n) >= (i128{1} << 31));
}

auto nontrivial(GroupDesc const& g, Val v) -> bool { return v.n < 0 || g.D != 1 || q_tie(i128{v.n} * g.N, i128{v.scale()} * g.D); }

void run_group(GroupDesc const& g, vf::Ctx& c)
{
    if (g.broken != nullptr) {
        Case k{"common", g.C, g.I, g.J, 0, 0, 0};
        vf::Flight<Case> fl("common", k);
        vf::mismatch("common", k,
            "common_type of duration<" + per_name(g.I) + "> and duration<" + per_name(g.J) + "> is ill-formed: etl::lcm(" + std::to_string(g.ba) + ", " + std::to_string(g.bb)
                + ") is not a constant expression (overflow in m*n although the result " + std::to_string(std::lcm(g.ba, g.bb)) + " is representable)");
        return;
    }
    int const K1     = g.k1;
    i64 const span   = c.thorough() ? 20000 : 2000;
    std::uint64_t nt = 0;
    auto run         = [&](Val x) {
        if (K1 == 0 && !fits32(x.n)) { return; }
        run_all(g, x);
        if (nontrivial(g, x)) { ++nt; }
    };
    for (i64 n = -span; n <= span; ++n) {
        run(Val{n, 0});
        if (K1 == 2) { run(Val{n, 1}); }
    }
    for (i64 base : {i64{1} << 31, i64{1} << 62}) {
        for (i64 d = -2; d <= 2; ++d) {
            i64 dd = (K1 == 2 && base > (i64{1} << 53)) ? d * 1024 : d; // stay exactly representable in double
            run(Val{base + dd, 0});
            run(Val{-(base + dd), 0});
        }
    }
    if (K1 == 0) {
        for (i64 n : {i64{INT32_MAX}, i64{INT32_MAX} - 1, i64{INT32_MIN}, i64{INT32_MIN} + 1}) { run(Val{n, 0}); }
    } else if (K1 == 1) {
        for (i64 n : {INT64_MAX, INT64_MAX - 1, INT64_MIN, INT64_MIN + 1}) { run(Val{n, 0}); }
    }
    // exact ties: count*N/D = m + 1/2  <=>  D even and count = (D/2) * t with t odd (N is odd then)
    if (g.D % 2 == 0) {
        for (i64 t = -41; t <= 41; t += 2) {
            i128 c = i128{g.D / 2} * t;
            if (fits64(c) && (K1 != 2 || abs128(c) <= P53)) { run(Val{static_cast<i64>(c), 0}); }
        }
    }
    if (K1 == 2) { // with counts n/8: ties whenever n*N/(8*D) = m + 1/2, e.g. N = D: n = 4 (mod 8); sweep n = 4t*D for odd t
        for (i64 t = -41; t <= 41; t += 2) {
            i128 c = i128{4} * g.D * t;
            if (abs128(c) <= (i128{1} << 40)) { run(Val{static_cast<i64>(c), 1}); }
        }
    }
    vf::nontrivial_count(nt);
    // seeded random counts over the whole range of the rep (bit width chosen uniformly)
    vf::Rng rng(c.seed * 1000003ULL + static_cast<std::uint64_t>(g.C * 100 + g.I * 10 + g.J));
    int const nrand = c.thorough() ? 50000 : 1500;
    for (int r = 0; r < nrand; ++r) {
        int const maxw = K1 == 0 ? 31 : K1 == 1 ? 63 : 53;
        auto const w   = static_cast<int>(rng.below(static_cast<std::uint64_t>(maxw))) + 1;
        auto mag       = static_cast<i64>(rng.next() >> (64 - w));
        i64 n          = (rng.next() & 1) ? mag : -mag;
        Val x{n, (K1 == 2 && (rng.next() & 3) == 0 && abs128(n) < (i128{1} << 40)) ? 1 : 0};
        run_all(g, x);
        if (nontrivial(g, x)) { vf::nontrivial(vf::mix(vf::mix(vf::mix(0x12ULL, g.C * 100 + g.I * 10 + g.J), x.n), x.frac)); }
    }
}

// ------------------------------------------------------------------------------------------------ dispatch table
// etl::common_type<duration, duration> evaluates etl::lcm / etl::gcd of the periods in a constant expression; if that
// is not a constant expression (signed overflow inside lcm) the duration types of the group cannot even be named.
// The probe turns that hard error into a run-time failure with a case string.
template <i64 A, i64 B>
concept lcm_gcd_const = requires { typename std::integral_constant<int, (etl::lcm(A, B), etl::gcd(A, B), 0)>; };

// Which of the 7 x 100 groups exist (compile-time and memory budget: at most 6 translation units):
//   int64->int64, int32->int32 and double->double for all 100 ordered period pairs,
//   and for every ordered pair exactly one of the mixed combinations int32->int64, int64->int32, int64->double,
//   double->int64 (chosen by (3i + j) mod 4, so each mixed combination sees 25 pairs spread over the period set).
// time_point operations are instantiated for int64->int64 and double->double.
constexpr int MIXED[4] = {2, 3, 5, 6};
constexpr bool group_exists(int g)
{
    int const c = g / 100, i = (g / 10) % 10, j = g % 10;
    return c == 0 || c == 1 || c == 4 || MIXED[(3 * i + j) % 4] == c;
}
constexpr bool group_with_tp(int g) { return g / 100 == 0 || g / 100 == 4; }
// groups are dealt to the slices so that every slice sees every rep combination
constexpr bool in_slice(int g) { return group_exists(g) && (g % 100 + 3 * (g / 100)) % C12_NSLICES == C12_SLICE; }

template <int G>
constexpr auto desc() -> GroupDesc
{
    constexpr int C = G / 100, I = (G / 10) % 10, J = G % 10;
    constexpr i64 ctd = std::lcm(PD[I], PD[J]);
    GroupDesc d       = make_desc(C, I, J);
    if constexpr (!in_slice(G)) {
        return d;
    } else if constexpr (!lcm_gcd_const<PD[I], PD[J]>) {
        d.broken = "lcm";
        d.ba     = PD[I];
        d.bb     = PD[J];
    } else if constexpr (!lcm_gcd_const<ctd, ctd>) { // needed by common_type_t<CT> (return type of unary + and -)
        d.broken = "lcm";
        d.ba     = ctd;
        d.bb     = ctd;
    } else if constexpr (!lcm_gcd_const<PD[I], PD[I]>) {
        d.broken = "lcm";
        d.ba     = PD[I];
        d.bb     = PD[I];
    } else if constexpr (!lcm_gcd_const<PD[J], PD[J]>) {
        d.broken = "lcm";
        d.ba     = PD[J];
        d.bb     = PD[J];
    } else {
        using R1 = typename Combo<C>::r1;
        using R2 = typename Combo<C>::r2;
        d.with_tp = group_with_tp(G);
        d.e       = &Ops<LibE, R1, R2, I, J, group_with_tp(G)>::table;
        d.s       = &Ops<LibS, R1, R2, I, J, group_with_tp(G)>::table;
    }
    return d;
}
template <int... G>
constexpr auto make_table(std::integer_sequence<int, G...>) -> std::array<GroupDesc, sizeof...(G)>
{
    return {desc<G>()...};
}
auto const g_table = make_table(std::make_integer_sequence<int, NCOMBO * 100>{});
auto present(GroupDesc const& g) -> bool { return g.e != nullptr || g.broken != nullptr; }


// ------------------------------------------------------------------------------------------------ floating-point rep matrix
// The grid above uses int32 / int64 / double.  This section instantiates, for a small set of period pairs (three with
// equal periods, five whose conversion factor has num != 1 and/or den != 1), every ordered pair of {float, double,
// long double} and the floating <-> integer pairs, and checks
//   fp_convert : converting constructor (where std allows it), duration_cast, + , - and the six comparisons - all
//                specified expression by expression, hence bit-identical to std::chrono for ANY finite count (no UB:
//                integer destinations only within range): counts n/16, seeded random doubles, and counts t*D*2^e whose
//                exact result t*N*2^e is representable in the destination (then also compared with that exact value);
//   fp_round   : floor / ceil / round (ties to even) of durations and time_points, also when only the REP changes
//                (equal periods, floating source, integer destination): counts n/16 (all sixteenths incl. exact
//                halves and their neighbours, negative values) against exact rational arithmetic and std::chrono, inside
//                the window where the computation type holds every intermediate exactly.
enum FKind { FK_I32 = 0, FK_I64 = 1, FK_F64 = 2, FK_F32 = 3, FK_F80 = 4 };
template <typename R>
inline constexpr int fkind_of = std::is_same_v<R, float> ? FK_F32 : std::is_same_v<R, double> ? FK_F64 : std::is_same_v<R, long double> ? FK_F80 : sizeof(R) == 4 ? FK_I32 : FK_I64;
constexpr bool fk_float(int k) { return k >= 2; }
constexpr int fk_mant(int k) { return k == FK_F32 ? 24 : k == FK_F64 ? 53 : k == FK_F80 ? 62 : k == FK_I32 ? 31 : 62; } // exact-integer window (bits)
constexpr int fk_rank(int k) { return k == FK_F32 ? 1 : k == FK_F64 ? 2 : k == FK_F80 ? 3 : 0; }
auto fk_name(int k) -> char const* { return k == FK_I32 ? "int32" : k == FK_I64 ? "int64" : k == FK_F64 ? "double" : k == FK_F32 ? "float" : "long double"; }
// kind of common_type<A, B, intmax_t> / common_type<A, B>
constexpr int fk_common(int a, int b, bool with_intmax)
{
    if (fk_float(a) || fk_float(b)) { return fk_rank(a) >= fk_rank(b) ? a : b; }
    return (with_intmax || a == FK_I64 || b == FK_I64) ? FK_I64 : FK_I32;
}

struct FNum { // a count of any rep: floating values are held exactly in a long double
    long double f{0};
    i64 i{0};
};
template <typename R>
constexpr auto fget(FNum n) -> R
{
    if constexpr (std::is_floating_point_v<R>) {
        return static_cast<R>(n.f);
    } else {
        return static_cast<R>(n.i);
    }
}
template <typename R>
constexpr auto fput(R v) -> FNum
{
    if constexpr (std::is_floating_point_v<R>) {
        return FNum{static_cast<long double>(v), 0};
    } else {
        return FNum{0, static_cast<i64>(v)};
    }
}
auto fsame(int k, FNum a, FNum b) -> bool { return fk_float(k) ? (a.f == b.f && std::signbit(a.f) == std::signbit(b.f)) : a.i == b.i; }
auto fstr(int k, FNum v) -> std::string
{
    if (!fk_float(k)) { return std::to_string(v.i); }
    char b[80];
    std::snprintf(b, sizeof b, "%.21Lg", v.f);
    return b;
}

struct FFacts {
    bool constructible, convertible;
    int ct_rep;
    long long ct_num, ct_den;
};
struct FOpsTable {
    FFacts facts;
    FNum (*ctor)(FNum);
    FNum (*cast)(FNum);
    void (*fcr)(FNum, FNum*);        // floor, ceil, round, and the same three for a time_point
    void (*arith)(FNum, FNum, FNum*); // a + b, a - b
    unsigned (*cmp)(FNum, FNum);
};
template <typename L, typename R1, typename R2, int I, int J>
struct FOps {
    using D1 = typename L::template dur<R1, I>;
    using D2 = typename L::template dur<R2, J>;
    using CT = typename L::template ct<D1, D2>;
    using T1 = typename L::template tp<D1>;
    static constexpr bool ctor_ok = std::is_constructible_v<D2, D1>;
    static constexpr bool to_int  = !std::is_floating_point_v<R2>;
    static auto d1(FNum c) -> D1 { return D1{fget<R1>(c)}; }
    static auto d2(FNum c) -> D2 { return D2{fget<R2>(c)}; }
    static auto ctor(FNum c) -> FNum
    {
        if constexpr (ctor_ok) {
            return fput(D2(d1(c)).count());
        } else {
            return c;
        }
    }
    static auto cast(FNum c) -> FNum { return fput(L::template cast<D2>(d1(c)).count()); }
    static void fcr(FNum c, FNum* out)
    {
        auto const d = d1(c);
        T1 const t{d};
        out[0] = fput(L::template floor<D2>(d).count());
        out[1] = fput(L::template ceil<D2>(d).count());
        out[3] = fput(L::template floor<D2>(t).time_since_epoch().count());
        out[4] = fput(L::template ceil<D2>(t).time_since_epoch().count());
        if constexpr (to_int) {
            out[2] = fput(L::template round<D2>(d).count());
            out[5] = fput(L::template round<D2>(t).time_since_epoch().count());
        }
    }
    static void arith(FNum a, FNum b, FNum* out)
    {
        out[0] = fput((d1(a) + d2(b)).count());
        out[1] = fput((d1(a) - d2(b)).count());
    }
    static auto cmp(FNum a, FNum b) -> unsigned
    {
        auto const x = d1(a);
        auto const y = d2(b);
        return (x == y ? 1U : 0U) | (x != y ? 2U : 0U) | (x < y ? 4U : 0U) | (x <= y ? 8U : 0U) | (x > y ? 16U : 0U) | (x >= y ? 32U : 0U);
    }
    static constexpr FOpsTable table{FFacts{ctor_ok, std::is_convertible_v<D1, D2>, fkind_of<typename CT::rep>, CT::period::num, CT::period::den}, &ctor, &cast, &fcr, &arith, &cmp};
};

template <int RP>
struct FRepPair;
#define C12_FREP(RP, A, B)                                                                                             \
    template <>                                                                                                        \
    struct FRepPair<RP> {                                                                                              \
        using r1 = A;                                                                                                  \
        using r2 = B;                                                                                                  \
    };
C12_FREP(0, float, double)
C12_FREP(1, float, long double)
C12_FREP(2, double, float)
C12_FREP(3, double, long double)
C12_FREP(4, long double, float)
C12_FREP(5, long double, double)
C12_FREP(6, float, float)
C12_FREP(7, long double, long double)
C12_FREP(8, double, i64)
C12_FREP(9, float, i32)
C12_FREP(10, long double, i64)
C12_FREP(11, float, i64)
C12_FREP(12, double, i32)
C12_FREP(13, i32, float)
C12_FREP(14, i64, long double)
C12_FREP(15, i64, float)
C12_FREP(16, i32, double)
constexpr int NFREP = 17;
constexpr int FK1[NFREP] = {FK_F32, FK_F32, FK_F64, FK_F64, FK_F80, FK_F80, FK_F32, FK_F80, FK_F64, FK_F32, FK_F80, FK_F32, FK_F64, FK_I32, FK_I64, FK_I64, FK_I32};
constexpr int FK2[NFREP] = {FK_F64, FK_F80, FK_F32, FK_F80, FK_F32, FK_F64, FK_F32, FK_F80, FK_I64, FK_I32, FK_I64, FK_I64, FK_I32, FK_F32, FK_F80, FK_F32, FK_F64};
// period pairs (indices into the period set): equal periods, and conversion factors 1/60, 60, 7/15, 150000/7007, 1001/10000
constexpr int NFPP       = 8;
constexpr int FPI[NFPP]  = {3, 2, 8, 3, 4, 7, 8, 9};
constexpr int FPJ[NFPP]  = {3, 2, 8, 4, 3, 8, 9, 7};

struct FDesc {
    int RP, PP, I, J;
    int k1, k2, kcr, kc; // source, destination, computation type of cast / constructor, rep of the common type
    i64 N, D, f1, f2, ctn, ctd;
    FOpsTable const* e;
    FOpsTable const* s;
    [[nodiscard]] auto n1() const -> std::string { return std::string("duration<") + fk_name(k1) + "," + per_name(I) + ">"; }
    [[nodiscard]] auto n2() const -> std::string { return std::string("duration<") + fk_name(k2) + "," + per_name(J) + ">"; }
};
constexpr bool f_in_slice(int m) { return m % C12_NSLICES == C12_SLICE; }
template <int M>
constexpr auto fdesc() -> FDesc
{
    constexpr int RP = M / NFPP, PP = M % NFPP, I = FPI[PP], J = FPJ[PP];
    FDesc d{};
    d.RP  = RP;
    d.PP  = PP;
    d.I   = I;
    d.J   = J;
    d.k1  = FK1[RP];
    d.k2  = FK2[RP];
    d.kcr = fk_common(d.k1, d.k2, true);
    d.kc  = fk_common(d.k1, d.k2, false);
    i64 a = PN[I] * PD[J];
    i64 b = PD[I] * PN[J];
    i64 g = std::gcd(a, b);
    d.N   = a / g;
    d.D   = b / g;
    d.ctn = std::gcd(PN[I], PN[J]);
    d.ctd = std::lcm(PD[I], PD[J]);
    d.f1  = (PN[I] / d.ctn) * (d.ctd / PD[I]);
    d.f2  = (PN[J] / d.ctn) * (d.ctd / PD[J]);
    if constexpr (f_in_slice(M)) {
        using R1 = typename FRepPair<RP>::r1;
        using R2 = typename FRepPair<RP>::r2;
        d.e      = &FOps<LibE, R1, R2, I, J>::table;
        d.s      = &FOps<LibS, R1, R2, I, J>::table;
    }
    return d;
}
template <int... M>
constexpr auto make_ftable(std::integer_sequence<int, M...>) -> std::array<FDesc, sizeof...(M)>
{
    return {fdesc<M>()...};
}
auto const g_ftable = make_ftable(std::make_integer_sequence<int, NFREP * NFPP>{});

// a first count: mode 0: the integer n; mode 1: n/16; mode 2: the double with bit pattern n;
// mode 3: n * D * 2^e (e = the second number of the case), whose exact converted value n * N * 2^e is representable
struct FVal {
    int mode;
    i64 n;
    i64 e;
    [[nodiscard]] auto value(FDesc const& g) const -> long double
    {
        if (mode == 0) { return static_cast<long double>(n); }
        if (mode == 1) { return static_cast<long double>(n) / 16.0L; }
        if (mode == 2) { return static_cast<long double>(std::bit_cast<double>(n)); }
        return std::ldexp(static_cast<long double>(n * g.D), static_cast<int>(e));
    }
    [[nodiscard]] auto scale() const -> i64 { return mode == 1 ? 16 : 1; }
};
auto f_num(int k, long double v) -> FNum { return fk_float(k) ? FNum{v, 0} : FNum{0, static_cast<i64>(v)}; }
// is the source value exactly representable in the source rep (so that both libraries and the oracle see the same number)
auto f_source_ok(FDesc const& g, FVal v) -> bool
{
    long double const x = v.value(g);
    if (!fk_float(g.k1)) { return (v.mode == 0 || v.mode == 3) && x == std::floor(x) && std::fabs(x) <= std::ldexp(1.0L, fk_mant(g.k1)); }
    if (g.k1 == FK_F32) { return static_cast<long double>(static_cast<float>(x)) == x; }
    if (g.k1 == FK_F64) { return static_cast<long double>(static_cast<double>(x)) == x; }
    return true;
}
constexpr i128 pow2(int b) { return i128{1} << b; }

enum { S_FPCONV = 0, S_FPROUND = 1 };
std::uint64_t g_fp_evals[2];
std::uint64_t g_fp_lab[4][2]; // exact window of convert, window of round, exact tie, equal periods
char const* const FP_LABS[4] = {"fp_convert.exact_window", "fp_round.in_window", "fp_round.exact_tie", "fp.equal_periods_different_reps"};
void flush_fp()
{
    if (g_fp_evals[0] != 0) { vf::eval("fp_convert", g_fp_evals[0]); }
    if (g_fp_evals[1] != 0) { vf::eval("fp_round", g_fp_evals[1]); }
    g_fp_evals[0] = g_fp_evals[1] = 0;
    for (int l = 0; l < 4; ++l) {
        if (g_fp_lab[l][1] != 0) { vf::label(FP_LABS[l], g_fp_lab[l][0], g_fp_lab[l][1]); }
        g_fp_lab[l][0] = g_fp_lab[l][1] = 0;
    }
}
void fp_lab(int l, bool hit)
{
    g_fp_lab[l][0] += hit ? 1 : 0;
    g_fp_lab[l][1] += 1;
}
auto fmk(FDesc const& g, char const* sub, FVal v, i64 c2) -> Case { return Case{sub, g.RP, g.PP, v.mode == 3 ? static_cast<int>(v.e) : 0, v.n, v.mode, c2}; }

void chk_fp_convert(FDesc const& g, FVal v, i64 c2)
{
    Case k = fmk(g, "fp_convert", v, c2);
    vf::Flight<Case> fl("fp_convert", k);
    auto const& fe = g.e->facts;
    auto const& fs = g.s->facts;
    REQUIRE(k, fe.constructible == fs.constructible && fe.convertible == fs.convertible,
        g.n1() + " -> " + g.n2() + ": is_constructible etl " + std::to_string(fe.constructible) + " std " + std::to_string(fs.constructible) + ", is_convertible etl " + std::to_string(fe.convertible) + " std " + std::to_string(fs.convertible));
    REQUIRE(k, fe.ct_rep == fs.ct_rep && fe.ct_num == fs.ct_num && fe.ct_den == fs.ct_den && fs.ct_rep == g.kc, "common_type of " + g.n1() + " and " + g.n2() + " differs from std::chrono");
    if (!f_source_ok(g, v)) { return; }
    long double const x = v.value(g);
    FNum const a        = f_num(g.k1, x);
    auto const src      = [&] { return g.n1() + "(" + fstr(g.k1, a) + ")"; };
    // ---- exact converted value, if it can be stated
    bool exact = false;
    long double ex = 0; // exact value of count * N / D
    if (v.mode == 3) {
        i128 const tN = i128{v.n} * g.N;
        i128 const in = i128{v.n} * g.D * g.N; // intermediate count * N (times 2^e)
        exact         = abs128(in) <= pow2(fk_mant(g.kcr)) && abs128(tN) <= pow2(fk_mant(g.k2)) && (fk_float(g.k2) || v.e >= 0);
        ex            = std::ldexp(static_cast<long double>(static_cast<i64>(tN)), static_cast<int>(v.e));
        if (!fk_float(g.k2) && std::fabs(ex) > std::ldexp(1.0L, fk_mant(g.k2))) { exact = false; }
    } else if (v.mode == 0 || v.mode == 1) {
        i128 const num = i128{v.n} * g.N;
        i128 const den = i128{v.scale()} * g.D;
        if (abs128(num) <= pow2(fk_mant(g.kcr))) {
            if (fk_float(g.k2)) {
                if (num % g.D == 0 && abs128(num / g.D) <= pow2(fk_mant(g.k2))) {
                    exact = true;
                    ex    = static_cast<long double>(static_cast<i64>(num / g.D)) / static_cast<long double>(v.scale());
                }
            } else if (abs128(q_trunc(num, den)) <= pow2(fk_mant(g.k2))) {
                exact = true;
                ex    = static_cast<long double>(static_cast<i64>(q_trunc(num, den))); // duration_cast truncates
            }
        }
    }
    fp_lab(0, exact);
    fp_lab(3, g.N == 1 && g.D == 1);
    // ---- no UB: a floating value converted to an integer destination must be in range
    bool in_range = true;
    if (!fk_float(g.k2)) { in_range = std::fabs(x) * static_cast<long double>(g.N) / static_cast<long double>(g.D) < std::ldexp(1.0L, fk_mant(g.k2) - 1); }
    if (in_range) {
        FNum const re = g.e->cast(a);
        FNum const rs = g.s->cast(a);
        REQUIRE(k, fsame(g.k2, re, rs), "duration_cast<" + g.n2() + ">(" + src() + "): etl " + fstr(g.k2, re) + " std::chrono " + fstr(g.k2, rs));
        if (exact) { REQUIRE(k, fk_float(g.k2) ? re.f == ex : static_cast<long double>(re.i) == ex, "duration_cast<" + g.n2() + ">(" + src() + "): etl " + fstr(g.k2, re) + " exact " + fstr(FK_F80, FNum{ex, 0})); }
        ++g_fp_evals[S_FPCONV];
        if (fe.constructible) {
            FNum const ce = g.e->ctor(a);
            FNum const cs = g.s->ctor(a);
            REQUIRE(k, fsame(g.k2, ce, cs), g.n2() + "(" + src() + ").count() [converting constructor]: etl " + fstr(g.k2, ce) + " std::chrono " + fstr(g.k2, cs));
            if (exact) { REQUIRE(k, fk_float(g.k2) ? ce.f == ex : static_cast<long double>(ce.i) == ex, g.n2() + "(" + src() + ").count() [converting constructor]: etl " + fstr(g.k2, ce) + " exact " + fstr(FK_F80, FNum{ex, 0})); }
            ++g_fp_evals[S_FPCONV];
        }
    }
    // ---- + , - and the comparisons with a second operand of the destination type (the common rep is floating: no UB)
    if (v.mode != 3) {
        long double const y = v.mode == 2 ? static_cast<long double>(std::bit_cast<double>(c2)) : static_cast<long double>(c2) / static_cast<long double>(v.scale());
        bool y_ok           = true;
        if (!fk_float(g.k2)) {
            y_ok = y == std::floor(y) && std::fabs(y) < std::ldexp(1.0L, fk_mant(g.k2) - 1);
        } else if (g.k2 == FK_F32) {
            y_ok = static_cast<long double>(static_cast<float>(y)) == y;
        } else if (g.k2 == FK_F64) {
            y_ok = static_cast<long double>(static_cast<double>(y)) == y;
        }
        if (y_ok) {
            FNum const b = f_num(g.k2, y);
            FNum e[2], s[2];
            g.e->arith(a, b, e);
            g.s->arith(a, b, s);
            auto const rhs = [&] { return g.n2() + "(" + fstr(g.k2, b) + ")"; };
            REQUIRE(k, fsame(g.kc, e[0], s[0]), src() + " + " + rhs() + ": etl " + fstr(g.kc, e[0]) + " std::chrono " + fstr(g.kc, s[0]));
            REQUIRE(k, fsame(g.kc, e[1], s[1]), src() + " - " + rhs() + ": etl " + fstr(g.kc, e[1]) + " std::chrono " + fstr(g.kc, s[1]));
            unsigned const ce = g.e->cmp(a, b);
            unsigned const cs = g.s->cmp(a, b);
            REQUIRE(k, ce == cs, src() + " <op> " + rhs() + ": etl " + bits_str(ce) + " std::chrono " + bits_str(cs));
            if (v.mode != 2) { // exact sum / difference / order, when the common type holds them exactly
                i128 const A = i128{v.n} * g.f1;
                i128 const B = i128{c2} * g.f2;
                if (abs128(A) <= pow2(fk_mant(g.kc)) && abs128(B) <= pow2(fk_mant(g.kc)) && abs128(A + B) <= pow2(fk_mant(g.kc)) && abs128(A - B) <= pow2(fk_mant(g.kc))) {
                    long double const sc_ = static_cast<long double>(v.scale());
                    REQUIRE(k, e[0].f == static_cast<long double>(static_cast<i64>(A + B)) / sc_ && e[1].f == static_cast<long double>(static_cast<i64>(A - B)) / sc_ && ce == cmp_bits(A, B),
                        src() + " +,-,<op> " + rhs() + ": etl " + fstr(g.kc, e[0]) + " " + fstr(g.kc, e[1]) + " " + bits_str(ce) + " differs from the exact sum / difference / order");
                }
            }
            g_fp_evals[S_FPCONV] += 8;
        }
    }
}

void chk_fp_round(FDesc const& g, FVal v)
{
    if (v.mode > 1) { return; }
    Case k = fmk(g, "fp_round", v, 0);
    vf::Flight<Case> fl("fp_round", k);
    if (!f_source_ok(g, v)) { return; }
    i128 const num = i128{v.n} * g.N;
    i128 const den = i128{v.scale()} * g.D;
    i128 const t   = q_trunc(num, den);
    // window: the computation type of the cast holds count*N exactly, the common type holds d and the candidates
    // t-1, t, t+1 (in common ticks) and their differences exactly, the candidates are representable in the destination
    bool ok = abs128(num) <= pow2(fk_mant(g.kcr));
    i128 const A = i128{v.n} * g.f1;
    ok           = ok && abs128(A) <= pow2(fk_mant(g.kc));
    for (i128 x : {t - 1, t, t + 1}) {
        i128 const L = x * g.f2 * v.scale();
        ok           = ok && abs128(x) < pow2(fk_mant(g.k2) - 1) && abs128(L) <= pow2(fk_mant(g.kc)) && abs128(A - L) <= pow2(fk_mant(g.kc));
    }
    if (fk_float(g.k2)) { ok = ok && num % g.D == 0 && abs128(num / g.D) <= pow2(fk_mant(g.k2)); } // floating destination: only exact quotients
    fp_lab(1, ok);
    if (!ok) { return; }
    FNum const a = f_num(g.k1, v.value(g));
    FNum e[6], s[6], x[6];
    g.e->fcr(a, e);
    g.s->fcr(a, s);
    int const cnt = fk_float(g.k2) ? 2 : 3;
    if (fk_float(g.k2)) {
        x[0] = x[1] = FNum{static_cast<long double>(static_cast<i64>(num / g.D)) / static_cast<long double>(v.scale()), 0};
    } else {
        x[0] = FNum{0, static_cast<i64>(q_floor(num, den))};
        x[1] = FNum{0, static_cast<i64>(q_ceil(num, den))};
        x[2] = FNum{0, static_cast<i64>(q_round_even(num, den))};
        fp_lab(2, q_tie(num, den));
    }
    char const* const nm[3] = {"floor", "ceil", "round"};
    for (int form = 0; form < 2; ++form) {
        for (int o = 0; o < cnt; ++o) {
            FNum const re = e[form * 3 + o], rs = s[form * 3 + o];
            auto const what = [&] { return std::string(nm[o]) + "<" + g.n2() + ">(" + (form ? "time_point<system_clock," : "") + g.n1() + (form ? ">" : "") + "(" + fstr(g.k1, a) + "))"; };
            REQUIRE(k, fsame(g.k2, rs, x[o]), "oracle disagreement (harness bug): std::chrono::" + what() + " = " + fstr(g.k2, rs) + ", exact " + fstr(g.k2, x[o]));
            REQUIRE(k, fsame(g.k2, re, x[o]) || (fk_float(g.k2) && re.f == x[o].f), what() + ": etl " + fstr(g.k2, re) + " expected " + fstr(g.k2, x[o]) + " (exact value " + s128(num) + "/" + s128(den) + ")");
        }
    }
    g_fp_evals[S_FPROUND] += static_cast<std::uint64_t>(2 * cnt);
    if (v.mode == 1 && (v.n == -31996 || v.n == 43) && g.N == 1 && g.D == 1) {
        vf::sample("fp_round", [&] { return "round<" + g.n2() + ">(" + g.n1() + "(" + fstr(g.k1, a) + ")) == " + fstr(g.k2, e[2]); });
    }
}

void run_fp_one(FDesc const& g, FVal v, vf::Ctx& c)
{
    (void)c;
    chk_fp_round(g, v);
    if (v.mode == 3) {
        chk_fp_convert(g, v, 0);
        return;
    }
    if (v.mode == 2) { // second operand: a nearby value, rounded to what the destination rep can hold
        double y = std::bit_cast<double>(v.n) * static_cast<double>(g.N) / static_cast<double>(g.D) * 0.75 + 3.0;
        if (g.k2 == FK_F32) { y = static_cast<double>(static_cast<float>(y)); }
        if (!fk_float(g.k2)) { y = std::floor(y); }
        chk_fp_convert(g, v, static_cast<i64>(std::bit_cast<std::uint64_t>(y)));
        return;
    }
    // second operands (in 1/scale destination ticks): the destination tick at / next to the same instant and a constant;
    // whole ticks for an integer destination
    i128 const step = fk_float(g.k2) ? 1 : v.scale();
    i128 const q    = q_floor(i128{v.n} * g.N, i128{g.D} * step) * step;
    for (i128 c2 : {q, q + step, i128{-7 * v.scale()}}) {
        if (fits64(c2)) { chk_fp_convert(g, v, static_cast<i64>(c2)); }
    }
}

void run_fp_group(FDesc const& g, vf::Ctx& c)
{
    std::uint64_t nt = 0;
    auto run         = [&](FVal v) {
        run_fp_one(g, v, c);
        if (v.n < 0 || g.D != 1 || (v.mode == 1 && (v.n & 15) == 8)) { ++nt; }
    };
    bool const isrc = !fk_float(g.k1);
    i64 const span  = c.thorough() ? 40000 : 4000;
    if (isrc) {
        for (i64 n = -span / 2; n <= span / 2; ++n) { run(FVal{0, n, 0}); }
    } else {
        for (i64 n = -span; n <= span; ++n) { run(FVal{1, n, 0}); } // every sixteenth in [-250, 250]
        // halves and their neighbours at larger magnitudes, both signs and parities
        for (i64 m : {i64{1999}, i64{2000}, i64{65535}, i64{65536}, i64{1000001}, i64{8388606}, i64{33554431}, i64{1} << 31, (i64{1} << 40) + 1, (i64{1} << 47) + 2}) {
            for (i64 d : {i64{-9}, i64{-8}, i64{-7}, i64{-4}, i64{-1}, i64{0}, i64{1}, i64{4}, i64{7}, i64{8}, i64{9}, i64{12}}) {
                run(FVal{1, 16 * m + d, 0});
                run(FVal{1, -(16 * m + d), 0});
            }
        }
    }
    // counts whose exact converted value is representable in the destination: t * D * 2^e
    vf::Rng rng(c.seed * 7919ULL + static_cast<std::uint64_t>(g.RP * NFPP + g.PP));
    int const nexact = c.thorough() ? 20000 : 1500;
    for (int r = 0; r < nexact; ++r) {
        int const dest_bits = fk_mant(g.k2);
        int bits            = 1 + static_cast<int>(rng.below(static_cast<std::uint64_t>(dest_bits)));
        i64 t               = static_cast<i64>(rng.next() >> (64 - bits));
        if (t == 0) { t = 1; }
        while (i128{t} * g.N > pow2(dest_bits) || i128{t} * g.D * g.N > pow2(fk_mant(g.kcr)) || i128{t} * g.D > pow2(fk_mant(g.k1))) { t >>= 1; }
        if (t == 0) { continue; }
        if (rng.next() & 1U) { t = -t; }
        i64 e = (isrc || !fk_float(g.k2)) ? static_cast<i64>(rng.below(4)) : static_cast<i64>(rng.below(24)) - 16;
        if (!fk_float(g.k2) || isrc) {
            while (e > 0 && (abs128(i128{t} * g.N) << e) > pow2(fk_mant(g.k2) - 1)) { --e; }
            while (e > 0 && (abs128(i128{t} * g.D) << e) > pow2(fk_mant(g.k1) - 1)) { --e; }
        }
        run(FVal{3, t, e});
    }
    vf::nontrivial_count(nt);
    // seeded random finite doubles (any mantissa): bit-identical to std::chrono
    if (!isrc) {
        int const nrand = c.thorough() ? 40000 : 3000;
        for (int r = 0; r < nrand; ++r) {
            int const ex   = static_cast<int>(rng.below(51)) - 30;
            double val     = std::ldexp(static_cast<double>(rng.next() >> 11), ex - 53);
            if (rng.next() & 1U) { val = -val; }
            if (g.k1 == FK_F32) { val = static_cast<double>(static_cast<float>(val)); }
            FVal const v{2, static_cast<i64>(std::bit_cast<std::uint64_t>(val)), 0};
            run_fp_one(g, v, c);
            vf::nontrivial(vf::mix(vf::mix(0x77ULL, g.RP * NFPP + g.PP), v.n));
        }
    }
}

// ------------------------------------------------------------------------------------------------ named aliases / literals
struct AliasFact {
    char const* name;
    long long en, ed, sn, sd;
    int ebits, minbits;
    bool esigned;
};
template <typename E, typename S>
auto fact(char const* name, int minbits) -> AliasFact
{
    return {name, E::period::num, E::period::den, S::period::num, S::period::den, static_cast<int>(sizeof(typename E::rep) * 8), minbits, std::is_signed_v<typename E::rep> && std::is_integral_v<typename E::rep>};
}
void aliases(int only)
{
    using namespace etl::literals::chrono_literals;
    using namespace std::chrono_literals;
    AliasFact const facts[] = {
        fact<ec::nanoseconds, sc::nanoseconds>("nanoseconds", 64),
        fact<ec::microseconds, sc::microseconds>("microseconds", 55),
        fact<ec::milliseconds, sc::milliseconds>("milliseconds", 45),
        fact<ec::seconds, sc::seconds>("seconds", 35),
        fact<ec::minutes, sc::minutes>("minutes", 29),
        fact<ec::hours, sc::hours>("hours", 23),
        fact<ec::days, sc::days>("days", 25),
        fact<ec::weeks, sc::weeks>("weeks", 22),
        fact<ec::months, sc::months>("months", 20),
        fact<ec::years, sc::years>("years", 17),
        // literal operators: type of the result of the integer forms
        fact<decltype(1_h), decltype(1h)>("decltype(1_h)", 23),
        fact<decltype(1_min), decltype(1min)>("decltype(1_min)", 29),
        fact<decltype(1_s), decltype(1s)>("decltype(1_s)", 35),
        fact<decltype(1_ms), decltype(1ms)>("decltype(1_ms)", 45),
        fact<decltype(1_us), decltype(1us)>("decltype(1_us)", 55),
        fact<decltype(1_ns), decltype(1ns)>("decltype(1_ns)", 64),
    };
    int idx = 0;
    for (auto const& f : facts) {
        int const me = idx++;
        if (only >= 0 && only != me) { continue; }
        Case k{"alias", 0, 0, 0, me, 0, 0};
        vf::Flight<Case> fl("alias", k);
        REQUIRE(k, f.en == f.sn && f.ed == f.sd, std::string("etl::chrono::") + f.name + "::period is ratio<" + std::to_string(f.en) + "," + std::to_string(f.ed) + ">, std::chrono has ratio<" + std::to_string(f.sn) + "," + std::to_string(f.sd) + ">");
        REQUIRE(k, f.esigned && f.ebits >= f.minbits, std::string("etl::chrono::") + f.name + "::rep must be a signed integer of at least " + std::to_string(f.minbits) + " bits, has " + std::to_string(f.ebits));
        vf::eval("alias");
        vf::nontrivial_count();
    }
    if (only < 0 || only == 100) {
        Case k{"alias", 0, 0, 0, 100, 0, 0};
        vf::Flight<Case> fl("alias", k);
        REQUIRE(k, (12_h).count() == 12 && (12_min).count() == 12 && (12_s).count() == 12 && (12_ms).count() == 12 && (12_us).count() == 12 && (12_ns).count() == 12, "integer chrono literal does not keep its count");
        REQUIRE(k, (1.5_h).count() == 1.5L && (1.5_min).count() == 1.5L && (1.5_s).count() == 1.5L && (1.5_ms).count() == 1.5L && (1.5_us).count() == 1.5L && (1.5_ns).count() == 1.5L, "floating chrono literal does not keep its count");
        REQUIRE(k, (decltype(1.5_h)::period::num == 3600 && decltype(1.5_min)::period::num == 60 && decltype(1.5_s)::period::den == 1 && decltype(1.5_ms)::period::den == 1000 && decltype(1.5_us)::period::den == 1000000
                       && decltype(1.5_ns)::period::den == 1000000000),
            "floating chrono literal has the wrong period");
        vf::eval("alias");
    }
    // duration_values<Rep>::zero / min / max for integer and floating reps
    if (only < 0 || only == 102) {
        Case k{"alias", 0, 0, 0, 102, 0, 0};
        vf::Flight<Case> fl("alias", k);
        auto dv = [&]<typename R>(char const* name) -> std::string {
            auto const ez = static_cast<long double>(ec::duration_values<R>::zero());
            auto const en = static_cast<long double>(ec::duration_values<R>::min());
            auto const ex = static_cast<long double>(ec::duration_values<R>::max());
            auto const sz = static_cast<long double>(sc::duration_values<R>::zero());
            auto const sn = static_cast<long double>(sc::duration_values<R>::min());
            auto const sx = static_cast<long double>(sc::duration_values<R>::max());
            bool const types = std::is_same_v<decltype(ec::duration_values<R>::zero()), R> && std::is_same_v<decltype(ec::duration_values<R>::min()), R> && std::is_same_v<decltype(ec::duration_values<R>::max()), R>;
            if (ez == sz && en == sn && ex == sx && types) { return ""; }
            char b[400];
            std::snprintf(b, sizeof b, "duration_values<%s>::zero/min/max: etl %Lg %Lg %Lg, std::chrono %Lg %Lg %Lg%s", name, ez, en, ex, sz, sn, sx, types ? "" : " (or a result type is not Rep)");
            return b;
        };
        for (auto const& d : {dv.operator()<std::int16_t>("int16"), dv.operator()<i32>("int32"), dv.operator()<i64>("int64"), dv.operator()<long long>("long long"), dv.operator()<unsigned>("unsigned"),
                 dv.operator()<float>("float"), dv.operator()<f64>("double"), dv.operator()<long double>("long double")}) {
            REQUIRE(k, d.empty(), d);
        }
        // duration<Rep>::zero/min/max for reps that the period grid does not instantiate
        auto dm = [&]<typename R>(char const* name) -> std::string {
            using E = ec::duration<R, etl::ratio<1, 50>>;
            using S = sc::duration<R, std::ratio<1, 50>>;
            bool const ok = static_cast<long double>(E::zero().count()) == static_cast<long double>(S::zero().count()) && static_cast<long double>(E::min().count()) == static_cast<long double>(S::min().count())
                         && static_cast<long double>(E::max().count()) == static_cast<long double>(S::max().count()) && std::is_same_v<decltype(E::zero()), E> && std::is_same_v<decltype(E::min()), E> && std::is_same_v<decltype(E::max()), E>;
            return ok ? std::string() : std::string("duration<") + name + ",ratio<1,50>>::zero()/min()/max() differ from std::chrono (values " + std::to_string(static_cast<long double>(E::zero().count())) + " "
                                            + std::to_string(static_cast<long double>(E::min().count())) + " " + std::to_string(static_cast<long double>(E::max().count())) + ")";
        };
        for (auto const& d : {dm.operator()<std::int16_t>("int16"), dm.operator()<i32>("int32"), dm.operator()<i64>("int64"), dm.operator()<float>("float"), dm.operator()<f64>("double"), dm.operator()<long double>("long double")}) {
            REQUIRE(k, d.empty(), d);
        }
        vf::eval("alias");
        vf::nontrivial_count();
    }
    // every literal suffix, integer and floating form: count, period and kind of rep against std::chrono_literals
    {
        struct Lit {
            char const* text;
            long double ec, sc;
            long long en, ed, sn, sd;
            bool efloat, sfloat;
        };
#define C12_LIT(E, S) Lit{#E, static_cast<long double>((E).count()), static_cast<long double>((S).count()), decltype(E)::period::num, decltype(E)::period::den, decltype(S)::period::num, decltype(S)::period::den, std::is_floating_point_v<decltype(E)::rep>, std::is_floating_point_v<decltype(S)::rep>}
        Lit const lits[][8] = {
            {C12_LIT(0_h, 0h), C12_LIT(1_h, 1h), C12_LIT(12_h, 12h), C12_LIT(596523_h, 596523h), C12_LIT(0.0_h, 0.0h), C12_LIT(1.5_h, 1.5h), C12_LIT(0.001_h, 0.001h), C12_LIT(123456.789_h, 123456.789h)},
            {C12_LIT(0_min, 0min), C12_LIT(1_min, 1min), C12_LIT(12_min, 12min), C12_LIT(35791394_min, 35791394min), C12_LIT(0.0_min, 0.0min), C12_LIT(1.5_min, 1.5min), C12_LIT(0.001_min, 0.001min), C12_LIT(123456.789_min, 123456.789min)},
            {C12_LIT(0_s, 0s), C12_LIT(1_s, 1s), C12_LIT(12_s, 12s), C12_LIT(9000000000_s, 9000000000s), C12_LIT(0.0_s, 0.0s), C12_LIT(1.5_s, 1.5s), C12_LIT(0.001_s, 0.001s), C12_LIT(123456.789_s, 123456.789s)},
            {C12_LIT(0_ms, 0ms), C12_LIT(1_ms, 1ms), C12_LIT(12_ms, 12ms), C12_LIT(9000000000_ms, 9000000000ms), C12_LIT(0.0_ms, 0.0ms), C12_LIT(1.5_ms, 1.5ms), C12_LIT(0.001_ms, 0.001ms), C12_LIT(123456.789_ms, 123456.789ms)},
            {C12_LIT(0_us, 0us), C12_LIT(1_us, 1us), C12_LIT(12_us, 12us), C12_LIT(9000000000_us, 9000000000us), C12_LIT(0.0_us, 0.0us), C12_LIT(1.5_us, 1.5us), C12_LIT(0.001_us, 0.001us), C12_LIT(123456.789_us, 123456.789us)},
            {C12_LIT(0_ns, 0ns), C12_LIT(1_ns, 1ns), C12_LIT(12_ns, 12ns), C12_LIT(9000000000_ns, 9000000000ns), C12_LIT(0.0_ns, 0.0ns), C12_LIT(1.5_ns, 1.5ns), C12_LIT(0.001_ns, 0.001ns), C12_LIT(123456.789_ns, 123456.789ns)},
        };
#undef C12_LIT
        int suffix = 0;
        for (auto const& row : lits) {
            int const me = 110 + suffix++;
            if (only >= 0 && only != me) { continue; }
            Case k{"alias", 0, 0, 0, me, 0, 0};
            vf::Flight<Case> fl("alias", k);
            for (auto const& l : row) {
                char b[400];
                std::snprintf(b, sizeof b, "chrono literal %s: etl count %Lg period %lld/%lld %s rep, std::chrono count %Lg period %lld/%lld %s rep", l.text, l.ec, l.en, l.ed, l.efloat ? "floating" : "integer", l.sc, l.sn, l.sd,
                    l.sfloat ? "floating" : "integer");
                REQUIRE(k, l.ec == l.sc && l.en == l.sn && l.ed == l.sd && l.efloat == l.sfloat, b);
            }
            vf::eval("alias");
            vf::nontrivial_count();
        }
    }
    // one mean month is 1/12 mean year (uses the aliases in arithmetic, not only their period members)
    if (only < 0 || only == 101) {
        Case k{"alias", 0, 0, 0, 101, 0, 0};
        vf::Flight<Case> fl("alias", k);
        auto const m  = ec::duration_cast<ec::seconds>(ec::months{12}).count();
        auto const y  = ec::duration_cast<ec::seconds>(ec::years{1}).count();
        auto const sm = sc::duration_cast<sc::seconds>(sc::months{12}).count();
        REQUIRE(k, m == y && m == sm, "duration_cast<seconds>(months{12}) = " + std::to_string(m) + ", duration_cast<seconds>(years{1}) = " + std::to_string(y) + ", std::chrono " + std::to_string(sm));
        vf::eval("alias");
    }
}

// operations of std::chrono that the tree does not provide (or that do not compile) are not part of the check; the
// evidence records which ones were found missing so that a later tree that gains them is noticed
void missing_operations()
{
    auto rec = [](char const* name, bool present) { vf::count(name, present ? 1 : 0); };
    using TP = ec::time_point<ec::system_clock, ec::seconds>;
    rec("etl_provides.duration*scalar", [](auto d) { return requires { d * 2; }; }(ec::seconds{}));
    rec("etl_provides.scalar*duration", [](auto d) { return requires { 2 * d; }; }(ec::seconds{}));
    rec("etl_provides.duration/scalar", [](auto d) { return requires { d / 2; }; }(ec::seconds{}));
    rec("etl_provides.duration%scalar", [](auto d) { return requires { d % 2; }; }(ec::seconds{}));
    rec("etl_provides.time_point+duration", [](auto t, auto d) { return requires { t + d; }; }(TP{}, ec::seconds{}));
    rec("etl_provides.time_point-duration", [](auto t, auto d) { return requires { t - d; }; }(TP{}, ec::seconds{}));
    rec("etl_provides.time_point-time_point", [](auto t) { return requires { t - t; }; }(TP{}));
}

auto sub_id(std::string const& s) -> int
{
    for (int i = 0; i < S_COUNT; ++i) {
        if (s == SUBS[i]) { return i; }
    }
    return -1;
}

} // namespace

void vf_run(vf::Ctx& c)
{
    if (C12_SLICE == 0 && c.shard == 0) {
        aliases(-1);
        missing_operations();
    }
    std::uint64_t work = 0;
    for (auto const& g : g_table) {
        if (!present(g)) { continue; }
        if (!c.mine(work++)) { continue; }
        run_group(g, c);
        flush_tally();
    }
    for (auto const& g : g_ftable) {
        if (g.e == nullptr) { continue; }
        if (!c.mine(work++)) { continue; }
        run_fp_group(g, c);
        flush_fp();
    }
}

std::string vf_replay(std::string const& sub, std::string const& cs)
{
    char what[64] = {0};
    int combo = 0, i = 0, j = 0, frac = 0;
    long long c1 = 0, c2 = 0;
    if (std::sscanf(cs.c_str(), "%63s %d %d %d %lld %d %lld", what, &combo, &i, &j, &c1, &frac, &c2) != 7) { return "unparseable case string"; }
    (void)sub;
    if (std::string(what) == "fp_convert" || std::string(what) == "fp_round") {
        // fields: rep pair, period pair, exponent (mode 3), first number, mode, second number
        int const m = combo * NFPP + i;
        if (combo < 0 || combo >= NFREP || i < 0 || i >= NFPP || g_ftable[static_cast<std::size_t>(m)].e == nullptr) { return "case belongs to a group that is not compiled into this slice"; }
        auto const& g = g_ftable[static_cast<std::size_t>(m)];
        FVal const v{frac, static_cast<i64>(c1), j};
        if (std::string(what) == "fp_round") {
            chk_fp_round(g, v);
        } else {
            chk_fp_convert(g, v, static_cast<i64>(c2));
        }
        return "";
    }
    int const s = sub_id(what);
    if (s < 0) { return "unknown sub-property in case string"; }
    if (s == S_ALIAS) {
        aliases(static_cast<int>(c1));
        return "";
    }
    int const gi = combo * 100 + i * 10 + j;
    if (combo < 0 || combo >= NCOMBO || i < 0 || i >= NPER || j < 0 || j >= NPER || !present(g_table[static_cast<std::size_t>(gi)])) { return "case belongs to a group that is not compiled into this slice"; }
    auto const& g = g_table[static_cast<std::size_t>(gi)];
    if (g.broken != nullptr) {
        run_group(g, vf::ctx());
        return "";
    }
    run_one(g, s, Val{static_cast<i64>(c1), frac}, static_cast<i64>(c2));
    return "";
}
