// C12 — duration / time_point arithmetic, comparison, conversion to the common type, duration_cast, floor, ceil,
// round (ties to even) and abs are exact rational arithmetic == std::chrono.
//
// Engine E2 (complete enumeration of the grid named by the property) + a seeded random top-up over the whole rep range.
// Oracles: (1) exact rational arithmetic in __int128 (floor / ceil / trunc / round-half-even of count*P1/P2),
//          (2) libstdc++ std::chrono instantiated with the same Rep and std::ratio<N,D>.
//
// One source, several translation units: the 7 x 10 x 10 (rep combination, period, period) template groups are
// distributed over C12_NSLICES harness binaries (-DC12_SLICE=k -DC12_NSLICES=n) so that they compile in parallel.
//
// Domain (soundness): a call is only made when the exact result AND every intermediate the standard mandates
// ([time.duration.cast]: CR = common_type<ToRep, Rep, intmax_t>, count*CF::num/CF::den; [time.duration.nonmember],
// [time.duration.comparisons]: both operands converted to the common type) is representable.  floor/ceil/round are
// specified by their result only, but every implementation (libstdc++ included) has to compare d with the candidate
// t in the common type, so those conversions (of d, t-1, t, t+1) are required to be representable as well.
// For `double` reps: the formulas of duration_cast, the converting constructor, + - / and the comparisons are mandated
// expression by expression, hence etl must be bit-identical to std::chrono whenever there is no UB; the exact rational
// oracle is applied in addition whenever every intermediate is an integer multiple of 1/8 below 2^53 (then IEEE
// arithmetic is exact).  floor/ceil/round involving double are only checked inside that exact window.
//
// Not part of the check because it does not exist / does not compile on this tree: duration * scalar, scalar * duration,
// duration / scalar, duration % scalar (only the compound forms exist), time_point +/- duration, time_point - time_point,
// time_point_cast (returns ToDuration constructed from a time_point: ill-formed), the converting time_point constructor
// (calls a misspelled member), round<> to a floating-point duration (ill-formed in etl, constrained away in std).
#include <etl/chrono.hpp>
#include <etl/ratio.hpp>

#include <bit>
#include <chrono>
#include <cinttypes>
#include <numeric>
#include <ratio>
#include <type_traits>

#include "verif.hpp"

#ifndef C12_SLICE
    #define C12_SLICE 0
#endif
#ifndef C12_NSLICES
    #define C12_NSLICES 1
#endif

namespace ec = etl::chrono;
namespace sc = std::chrono;

namespace {

using i64  = std::int64_t;
using i32  = std::int32_t;
using f64  = double;
using i128 = __int128;

// ------------------------------------------------------------------------------------------------ case
struct Case {
    char const* sub;
    int combo, i, j; // rep combination, period index of the source / lhs, period index of the target / rhs
    i64 c1;          // numerator of the first count
    int frac;        // 1: the first count is c1/8.0 (double sources only), 0: it is c1
    i64 c2;          // second count (binary operations, scalars); 0 where unused
};
auto show_case(Case const& k) -> std::string
{
    char b[256];
    std::snprintf(b, sizeof b, "%s %d %d %d %" PRId64 " %d %" PRId64, k.sub, k.combo, k.i, k.j, k.c1, k.frac, k.c2);
    return b;
}

struct Fail {
    bool set{false};
    std::string detail;
};

// ------------------------------------------------------------------------------------------------ exact arithmetic
constexpr i128 P53 = i128{1} << 53;
constexpr i128 P62 = i128{1} << 62;
constexpr i128 abs128(i128 v) { return v < 0 ? -v : v; }
constexpr bool fits64(i128 v) { return v >= INT64_MIN && v <= INT64_MAX; }
constexpr bool fits32(i128 v) { return v >= INT32_MIN && v <= INT32_MAX; }
// representable in a rep of kind k (0 = int32, 1 = int64, 2 = double: exactly representable integer window)
constexpr bool fitsk(int k, i128 v) { return k == 0 ? fits32(v) : k == 1 ? fits64(v) : abs128(v) <= P53; }
// rational n/d, d > 0
constexpr i128 q_trunc(i128 n, i128 d) { return n / d; }
constexpr i128 q_floor(i128 n, i128 d)
{
    i128 q = n / d;
    if ((n % d != 0) && (n < 0)) { --q; }
    return q;
}
constexpr i128 q_ceil(i128 n, i128 d)
{
    i128 q = n / d;
    if ((n % d != 0) && (n > 0)) { ++q; }
    return q;
}
constexpr bool q_tie(i128 n, i128 d)
{
    i128 r = n - q_floor(n, d) * d; // 0 <= r < d
    return 2 * r == d;
}
constexpr i128 q_round_even(i128 n, i128 d)
{
    i128 f = q_floor(n, d);
    i128 r = n - f * d;
    if (2 * r < d) { return f; }
    if (2 * r > d) { return f + 1; }
    return (f % 2 == 0) ? f : f + 1;
}
auto s128(i128 v) -> std::string
{
    if (v == 0) { return "0"; }
    bool neg = v < 0;
    std::string s;
    unsigned __int128 u = neg ? static_cast<unsigned __int128>(-(v + 1)) + 1 : static_cast<unsigned __int128>(v);
    while (u != 0) {
        s.insert(s.begin(), static_cast<char>('0' + static_cast<int>(u % 10)));
        u /= 10;
    }
    return neg ? "-" + s : s;
}

template <typename R>
inline constexpr int kind_of = std::is_floating_point_v<R> ? 2 : (sizeof(R) == 4 ? 0 : 1);
template <typename R>
auto rep_name() -> char const*
{
    return kind_of<R> == 2 ? "double" : kind_of<R> == 0 ? "int32" : "int64";
}
template <typename T>
auto vstr(T v) -> std::string
{
    if constexpr (std::is_floating_point_v<T>) {
        char b[64];
        std::snprintf(b, sizeof b, "%.17g", static_cast<double>(v));
        return b;
    } else if constexpr (std::is_same_v<T, bool>) {
        return v ? "true" : "false";
    } else {
        return std::to_string(v);
    }
}
template <typename T>
auto same(T a, T b) -> bool
{
    if constexpr (std::is_floating_point_v<T>) {
        return std::bit_cast<std::uint64_t>(static_cast<double>(a)) == std::bit_cast<std::uint64_t>(static_cast<double>(b));
    } else {
        return a == b;
    }
}

// ------------------------------------------------------------------------------------------------ periods
template <int I>
struct Per;
#define C12_PER(I, N, D)                                                                                               \
    template <>                                                                                                        \
    struct Per<I> {                                                                                                    \
        using e = etl::ratio<N, D>;                                                                                    \
        using s = std::ratio<N, D>;                                                                                    \
        static constexpr i64 n = N, d = D;                                                                             \
    };
C12_PER(0, 1, 1000000000)
C12_PER(1, 1, 1000000)
C12_PER(2, 1, 1000)
C12_PER(3, 1, 1)
C12_PER(4, 60, 1)
C12_PER(5, 3600, 1)
C12_PER(6, 86400, 1)
C12_PER(7, 1, 3)
C12_PER(8, 5, 7)
C12_PER(9, 1001, 30000)
constexpr int NPER = 10;
constexpr i64 PN[NPER] = {1, 1, 1, 1, 60, 3600, 86400, 1, 5, 1001};
constexpr i64 PD[NPER] = {1000000000, 1000000, 1000, 1, 1, 1, 1, 3, 7, 30000};
auto per_name(int i) -> std::string { return "ratio<" + std::to_string(PN[i]) + "," + std::to_string(PD[i]) + ">"; }

// rep combinations (source/lhs rep, target/rhs rep)
template <int C>
struct Combo;
#define C12_COMBO(C, A, B)                                                                                             \
    template <>                                                                                                        \
    struct Combo<C> {                                                                                                  \
        using r1 = A;                                                                                                  \
        using r2 = B;                                                                                                  \
    };
C12_COMBO(0, i64, i64)
C12_COMBO(1, i32, i32)
C12_COMBO(2, i32, i64)
C12_COMBO(3, i64, i32)
C12_COMBO(4, f64, f64)
C12_COMBO(5, i64, f64)
C12_COMBO(6, f64, i64)
constexpr int NCOMBO = 7;

// ------------------------------------------------------------------------------------------------ the model of a group
struct Model {
    int k1, k2, kc;   // rep kinds of source, target, common rep
    i64 N, D;         // P1/P2 reduced (conversion factor of duration_cast<To>(From))
    i64 f1, f2;       // P1/CT, P2/CT (integers), CT = ratio<gcd(n1,n2), lcm(d1,d2)>
    i64 ctn, ctd;     // CT
};
constexpr auto make_model(int k1, int k2, int i, int j) -> Model
{
    Model m{};
    m.k1   = k1;
    m.k2   = k2;
    m.kc   = (k1 == 2 || k2 == 2) ? 2 : (k1 == 1 || k2 == 1) ? 1 : 0;
    i64 a  = PN[i] * PD[j];
    i64 b  = PD[i] * PN[j];
    i64 g  = std::gcd(a, b);
    m.N    = a / g;
    m.D    = b / g;
    m.ctn  = std::gcd(PN[i], PN[j]);
    m.ctd  = std::lcm(PD[i], PD[j]);
    m.f1   = (PN[i] / m.ctn) * (m.ctd / PD[i]);
    m.f2   = (PN[j] / m.ctn) * (m.ctd / PD[j]);
    return m;
}

struct Val { // a count: n or n/8
    i64 n;
    int frac;
    [[nodiscard]] auto scale() const -> i64 { return frac ? 8 : 1; }
    template <typename R>
    [[nodiscard]] auto as() const -> R
    {
        if constexpr (std::is_floating_point_v<R>) {
            return frac ? static_cast<R>(n) / R(8) : static_cast<R>(n);
        } else {
            return static_cast<R>(n);
        }
    }
};

struct CastDom {
    bool ok;    // no UB in the mandated formula and the result is representable: etl must equal std
    bool exact; // additionally the result must equal the exact rational value (num/den truncated / exact)
    i128 num, den;
};
auto cast_dom(Model const& m, Val v) -> CastDom
{
    CastDom d{};
    d.num = i128{v.n} * m.N;
    d.den = i128{v.scale()} * m.D;
    if (m.k1 != 2 && m.k2 != 2) {
        d.ok    = (m.N == 1 || fits64(d.num)) && fitsk(m.k2, q_trunc(d.num, d.den));
        d.exact = d.ok;
    } else if (m.k2 != 2) { // double -> integer: CR = double, final static_cast<to_rep> must be in range
        d.ok    = abs128(q_trunc(d.num, d.den)) < P62 && fitsk(m.k2, q_trunc(d.num, d.den));
        d.exact = d.ok && abs128(d.num) <= P53;
    } else { // -> double
        d.ok    = true;
        d.exact = abs128(d.num) <= P53 && (d.num % m.D == 0);
    }
    return d;
}
// are d (count v of P1), and the candidates t-1, t, t+1 (counts of P2) all convertible to the common type?
auto round_dom(Model const& m, Val v, i128 t) -> bool
{
    i128 A = i128{v.n} * m.f1; // scaled by v.scale()
    if (m.kc != 2) {
        if (!(fits64(A) && fitsk(m.kc, A))) { return false; }
        for (i128 x : {t - 1, t, t + 1}) {
            i128 L = x * m.f2;
            if (!(fitsk(m.k2, x) && fits64(L) && fitsk(m.kc, L) && fitsk(m.kc, A - L) && fitsk(m.kc, L - A))) { return false; }
        }
        return fitsk(m.kc, m.f2);
    }
    if (abs128(A) > P53) { return false; }
    for (i128 x : {t - 1, t, t + 1}) {
        i128 L = x * m.f2 * v.scale();
        if (!(fitsk(m.k2, x) && abs128(L) <= P53 && abs128(A - L) <= P53)) { return false; }
    }
    return true;
}

// statistics are kept in plain counters and flushed once per group (vf::eval / vf::label cost a map lookup per call)
struct Tally { // plain counters, no allocation in the hot loop
    std::uint64_t n[16]{};
    std::uint64_t lab[16][2]{};
};
Tally g_t;
enum SubId { S_CAST, S_FLOOR, S_CEIL, S_ROUND, S_COMMON, S_CONVERT, S_UNARY, S_ARITH, S_CMP, S_TP, S_ALIAS, S_COUNT };
char const* const SUBS[S_COUNT] = {"cast", "floor", "ceil", "round", "common", "convert", "unary", "arith", "cmp", "time_point", "alias"};
enum LabId { L_NEG, L_NONINT, L_TIE, L_CAST_DOM, L_ROUND_DOM, L_ARITH_DOM, L_BIG, L_COUNT };
char const* const LABS[L_COUNT] = {"count.negative", "pair.non_integer_ratio", "round.exact_tie", "cast.in_domain", "floor_ceil_round.in_domain", "arith.in_domain", "count.beyond_2^31"};
void lab(LabId l, bool hit)
{
    g_t.lab[l][0] += hit ? 1 : 0;
    g_t.lab[l][1] += 1;
}
void flush_tally()
{
    for (int s = 0; s < S_COUNT; ++s) {
        if (g_t.n[s] != 0) { vf::eval(SUBS[s], g_t.n[s]); }
    }
    for (int l = 0; l < L_COUNT; ++l) {
        if (g_t.lab[l][1] != 0) {
            auto& c = vf::stats().classes[LABS[l]];
            c.first += g_t.lab[l][0];
            c.second += g_t.lab[l][1];
        }
    }
    g_t = Tally{};
}

#define REQUIRE(k, cond, msg)                                                                                          \
    do {                                                                                                               \
        if (!(cond)) {                                                                                                 \
            vf::mismatch((k).sub, (k), (msg));                                                                         \
            return;                                                                                                    \
        }                                                                                                              \
    } while (0)

// ------------------------------------------------------------------------------------------------ group
template <typename R1, typename R2, int I, int J, int C>
struct Group {
    using E1  = ec::duration<R1, typename Per<I>::e>;
    using E2  = ec::duration<R2, typename Per<J>::e>;
    using S1  = sc::duration<R1, typename Per<I>::s>;
    using S2  = sc::duration<R2, typename Per<J>::s>;
    using ECT = etl::common_type_t<E1, E2>;
    using SCT = std::common_type_t<S1, S2>;
    using RC  = typename SCT::rep;
    static constexpr int K1 = kind_of<R1>, K2 = kind_of<R2>, KC = kind_of<RC>;
    static constexpr Model M = make_model(K1, K2, I, J);

    static auto n1() -> std::string { return std::string("duration<") + rep_name<R1>() + "," + per_name(I) + ">"; }
    static auto n2() -> std::string { return std::string("duration<") + rep_name<R2>() + "," + per_name(J) + ">"; }
    static auto mk(char const* sub, Val v, i64 c2 = 0) -> Case { return Case{sub, C, I, J, v.n, v.frac, c2}; }

    // expected value of an exact rational result x/scale in rep R
    template <typename R>
    static auto exact_as(i128 x, i64 scale) -> R
    {
        if constexpr (std::is_floating_point_v<R>) {
            return static_cast<R>(static_cast<i64>(x)) / static_cast<R>(scale);
        } else {
            return static_cast<R>(x); // scale is 1 for every integer result
        }
    }

    // ---------------------------------------------------------------- duration_cast
    static void cast(Val v)
    {
        Case k = mk("cast", v);
        vf::Flight<Case> fl("cast", k);
        auto const dom = cast_dom(M, v);
        lab(L_CAST_DOM, dom.ok);
        if (!dom.ok) { return; }
        auto const c  = v.as<R1>();
        auto const re = ec::duration_cast<E2>(E1{c}).count();
        auto const rs = sc::duration_cast<S2>(S1{c}).count();
        REQUIRE(k, (std::is_same_v<decltype(re), decltype(rs)>), "duration_cast<" + n2() + ">: type of count() differs from std");
        REQUIRE(k, same(re, rs), "duration_cast<" + n2() + ">(" + n1() + "(" + vstr(c) + ")): etl " + vstr(re) + " std::chrono " + vstr(rs));
        if (dom.exact) {
            R2 ex = K2 == 2 ? exact_as<R2>(dom.num / M.D, v.scale()) : exact_as<R2>(q_trunc(dom.num, dom.den), 1);
            REQUIRE(k, same(re, ex), "duration_cast<" + n2() + ">(" + n1() + "(" + vstr(c) + ")): etl " + vstr(re) + " exact (truncated " + s128(dom.num) + "/" + s128(dom.den) + ") " + vstr(ex));
        }
        ++g_t.n[S_CAST];
    }

    // ---------------------------------------------------------------- floor / ceil / round
    static void fcr(Val v, int which) // 0 floor, 1 ceil, 2 round
    {
        char const* sub = which == 0 ? "floor" : which == 1 ? "ceil" : "round";
        Case k          = mk(sub, v);
        vf::Flight<Case> fl(sub, k);
        auto const dom = cast_dom(M, v);
        bool ok        = dom.ok && dom.exact;
        i128 t         = 0;
        if (ok) {
            if constexpr (K2 == 2) {
                // floating-point target: only the exactly representable results are specified well enough to compare
                t  = 0;
                ok = round_dom(M, v, q_trunc(dom.num, dom.den));
            } else {
                t  = q_trunc(dom.num, dom.den);
                ok = round_dom(M, v, t);
            }
        }
        lab(L_ROUND_DOM, ok);
        if (!ok) { return; }
        auto const c = v.as<R1>();
        if constexpr (K2 == 2) {
            if (which == 2) { return; } // round<> to a floating-point duration does not exist
            R2 ex = exact_as<R2>(dom.num / M.D, v.scale());
            R2 re = which == 0 ? ec::floor<E2>(E1{c}).count() : ec::ceil<E2>(E1{c}).count();
            R2 rs = which == 0 ? sc::floor<S2>(S1{c}).count() : sc::ceil<S2>(S1{c}).count();
            REQUIRE(k, same(re, rs) && same(re, ex), std::string(sub) + "<" + n2() + ">(" + n1() + "(" + vstr(c) + ")): etl " + vstr(re) + " std::chrono " + vstr(rs) + " exact " + vstr(ex));
        } else {
            i128 exi = which == 0 ? q_floor(dom.num, dom.den) : which == 1 ? q_ceil(dom.num, dom.den) : q_round_even(dom.num, dom.den);
            R2 ex    = static_cast<R2>(exi);
            R2 re    = which == 0 ? ec::floor<E2>(E1{c}).count() : which == 1 ? ec::ceil<E2>(E1{c}).count() : ec::round<E2>(E1{c}).count();
            R2 rs    = which == 0 ? sc::floor<S2>(S1{c}).count() : which == 1 ? sc::ceil<S2>(S1{c}).count() : sc::round<S2>(S1{c}).count();
            REQUIRE(k, rs == ex, std::string("oracle disagreement (harness bug): std::chrono::") + sub + " " + vstr(rs) + " exact " + vstr(ex) + " for " + n1() + "(" + vstr(c) + ") -> " + n2());
            REQUIRE(k, re == ex, std::string(sub) + "<" + n2() + ">(" + n1() + "(" + vstr(c) + ")): etl " + vstr(re) + " expected " + vstr(ex) + " (exact value " + s128(dom.num) + "/" + s128(dom.den) + ")");
            if (which == 2) { lab(L_TIE, q_tie(dom.num, dom.den)); }
        }
        ++g_t.n[which == 0 ? S_FLOOR : which == 1 ? S_CEIL : S_ROUND];
    }

    // ---------------------------------------------------------------- conversion to the common type, static facts
    static void common(Val v, i64 c2)
    {
        Case k = mk("common", v, c2);
        vf::Flight<Case> fl("common", k);
        // compile-time facts, reported at run time
        REQUIRE(k, ECT::period::num == SCT::period::num && ECT::period::den == SCT::period::den,
            "common_type<" + n1() + "," + n2() + ">::period: etl " + std::to_string(ECT::period::num) + "/" + std::to_string(ECT::period::den) + " std " + std::to_string(SCT::period::num) + "/" + std::to_string(SCT::period::den));
        REQUIRE(k, (std::is_same_v<typename ECT::rep, RC>), "common_type<" + n1() + "," + n2() + ">::rep differs from std");
        REQUIRE(k, ECT::period::num == M.ctn && ECT::period::den == M.ctd, "common_type period differs from ratio<gcd(num),lcm(den)>");
        REQUIRE(k, E1::period::num == Per<I>::n && E1::period::den == Per<I>::d && (std::is_same_v<typename E1::rep, R1>), "duration::period / rep members wrong");
        i128 A = i128{v.n} * M.f1;
        i128 B = i128{c2} * M.f2;
        bool okA, okB, exA, exB;
        if constexpr (KC != 2) {
            okA = fits64(A) && fitsk(KC, A);
            okB = fits64(B) && fitsk(KC, B) && fitsk(K2, c2);
            exA = okA;
            exB = okB;
        } else {
            okA = true;
            okB = K2 == 2 ? abs128(c2) <= P53 : fitsk(K2, c2);
            exA = abs128(A) <= P53;
            exB = okB && abs128(B) <= P53;
        }
        if (okA) {
            auto const c  = v.as<R1>();
            auto const re = ECT(E1{c}).count();
            auto const rs = SCT(S1{c}).count();
            REQUIRE(k, same(re, rs), "common_type_t<" + n1() + "," + n2() + ">(" + n1() + "(" + vstr(c) + ")).count(): etl " + vstr(re) + " std::chrono " + vstr(rs));
            if (exA) {
                RC ex = exact_as<RC>(A, v.scale());
                REQUIRE(k, same(re, ex), "common_type_t<" + n1() + "," + n2() + ">(" + n1() + "(" + vstr(c) + ")).count(): etl " + vstr(re) + " exact " + vstr(ex));
            }
            ++g_t.n[S_COMMON];
        }
        if (okB) {
            auto const c  = static_cast<R2>(c2);
            auto const re = ECT(E2{c}).count();
            auto const rs = SCT(S2{c}).count();
            REQUIRE(k, same(re, rs), "common_type_t<" + n1() + "," + n2() + ">(" + n2() + "(" + vstr(c) + ")).count(): etl " + vstr(re) + " std::chrono " + vstr(rs));
            if (exB) {
                RC ex = exact_as<RC>(B, 1);
                REQUIRE(k, same(re, ex), "common_type_t<" + n1() + "," + n2() + ">(" + n2() + "(" + vstr(c) + ")).count(): etl " + vstr(re) + " exact " + vstr(ex));
            }
            ++g_t.n[S_COMMON];
        }
    }

    // ---------------------------------------------------------------- implicit / explicit converting constructor
    static void convert(Val v)
    {
        Case k = mk("convert", v);
        vf::Flight<Case> fl("convert", k);
        constexpr bool e_impl = std::is_convertible_v<E1, E2>;
        constexpr bool s_impl = std::is_convertible_v<S1, S2>;
        constexpr bool e_ctor = std::is_constructible_v<E2, E1>;
        constexpr bool s_ctor = std::is_constructible_v<S2, S1>;
        REQUIRE(k, e_impl == s_impl && e_ctor == s_ctor,
            n1() + " -> " + n2() + ": is_convertible etl " + vstr(e_impl) + " std " + vstr(s_impl) + ", is_constructible etl " + vstr(e_ctor) + " std " + vstr(s_ctor));
        if constexpr (e_ctor && s_ctor) {
            auto const dom = cast_dom(M, v);
            if (!dom.ok) { return; }
            auto const c  = v.as<R1>();
            auto const re = E2(E1{c}).count();
            auto const rs = S2(S1{c}).count();
            REQUIRE(k, same(re, rs), n2() + "(" + n1() + "(" + vstr(c) + ")).count() [converting constructor]: etl " + vstr(re) + " std::chrono " + vstr(rs));
            if (dom.exact) {
                R2 ex = K2 == 2 ? exact_as<R2>(dom.num / M.D, v.scale()) : exact_as<R2>(q_trunc(dom.num, dom.den), 1);
                REQUIRE(k, same(re, ex), n2() + "(" + n1() + "(" + vstr(c) + ")).count() [converting constructor]: etl " + vstr(re) + " exact " + vstr(ex));
            }
            ++g_t.n[S_CONVERT];
        }
    }

    // ---------------------------------------------------------------- unary members of E1 (only instantiated for I == J, R1 == R2)
    static void unary(Val v, i64 c2)
    {
        if constexpr (I == J && std::is_same_v<R1, R2>) {
            Case k = mk("unary", v, c2);
            vf::Flight<Case> fl("unary", k);
            auto const c = v.as<R1>();
            auto const s = static_cast<R1>(c2);
            if constexpr (K1 != 2) {
                if (!fitsk(K1, c2)) { return; }
            }
            auto lim = [](i128 x) { return K1 == 2 ? true : fitsk(K1, x); };
            i128 n   = v.n; // (scaled) value
            auto nm  = n1() + "(" + vstr(c) + ")";
            REQUIRE(k, same(E1{c}.count(), c) && same((+E1{c}).count(), (+S1{c}).count()), "count() / unary + of " + nm);
            REQUIRE(k, same(E1::zero().count(), S1::zero().count()) && same(E1::min().count(), S1::min().count()) && same(E1::max().count(), S1::max().count()),
                n1() + "::zero/min/max: etl " + vstr(E1::zero().count()) + " " + vstr(E1::min().count()) + " " + vstr(E1::max().count()) + " std " + vstr(S1::zero().count()) + " " + vstr(S1::min().count()) + " "
                    + vstr(S1::max().count()));
            if (lim(-n)) {
                REQUIRE(k, same((-E1{c}).count(), (-S1{c}).count()) && same((-E1{c}).count(), static_cast<R1>(-c)), "-" + nm + ": etl " + vstr((-E1{c}).count()) + " std " + vstr((-S1{c}).count()));
                auto const ea = ec::abs(E1{c}).count();
                auto const sa = sc::abs(S1{c}).count();
                R1 xa         = c < 0 ? static_cast<R1>(-c) : c;
                REQUIRE(k, same(ea, sa) && same(ea, xa), "abs(" + nm + "): etl " + vstr(ea) + " std::chrono " + vstr(sa) + " exact " + vstr(xa));
            }
            if (lim(n + v.scale()) && lim(n - v.scale())) {
                E1 a{c}, b{c}, p{c}, q{c};
                S1 sa{c}, sb{c}, sp{c}, sq{c};
                auto r1 = (++a).count();
                auto r2 = (--b).count();
                auto r3 = (p++).count();
                auto r4 = (q--).count();
                REQUIRE(k, same(r1, (++sa).count()) && same(r2, (--sb).count()) && same(r3, (sp++).count()) && same(r4, (sq--).count()) && same(a.count(), sa.count()) && same(b.count(), sb.count()) && same(p.count(), sp.count())
                               && same(q.count(), sq.count()),
                    "++/-- of " + nm + ": etl " + vstr(r1) + " " + vstr(r2) + " " + vstr(r3) + " " + vstr(r4) + " then " + vstr(a.count()) + " " + vstr(b.count()) + " " + vstr(p.count()) + " " + vstr(q.count()));
            }
            i128 m2 = i128{c2} * v.scale();
            if (lim(n + m2) && lim(n - m2)) {
                E1 a{c}, b{c};
                S1 sa{c}, sb{c};
                a += E1{s};
                b -= E1{s};
                sa += S1{s};
                sb -= S1{s};
                REQUIRE(k, same(a.count(), sa.count()) && same(b.count(), sb.count()), nm + " += / -= " + n1() + "(" + vstr(s) + "): etl " + vstr(a.count()) + " " + vstr(b.count()) + " std " + vstr(sa.count()) + " " + vstr(sb.count()));
            }
            if (K1 == 2 ? (abs128(i128{v.n} * c2) <= P53) : lim(i128{v.n} * c2)) {
                E1 a{c};
                S1 sa{c};
                a *= s;
                sa *= s;
                REQUIRE(k, same(a.count(), sa.count()), nm + " *= " + vstr(s) + ": etl " + vstr(a.count()) + " std " + vstr(sa.count()));
            }
            if (c2 != 0 && (K1 == 2 || lim(i128{v.n} / c2))) {
                E1 a{c};
                S1 sa{c};
                a /= s;
                sa /= s;
                REQUIRE(k, same(a.count(), sa.count()), nm + " /= " + vstr(s) + ": etl " + vstr(a.count()) + " std " + vstr(sa.count()));
                if constexpr (K1 != 2) {
                    E1 b{c}, d{c};
                    S1 sb{c}, sd{c};
                    b %= s;
                    sb %= s;
                    d %= E1{s};
                    sd %= S1{s};
                    REQUIRE(k, b.count() == sb.count() && d.count() == sd.count() && b.count() == static_cast<R1>(v.n % c2),
                        nm + " %= " + vstr(s) + " / %= duration: etl " + vstr(b.count()) + " " + vstr(d.count()) + " std " + vstr(sb.count()) + " " + vstr(sd.count()));
                }
            }
            ++g_t.n[S_UNARY];
        } else {
            (void)v;
            (void)c2;
        }
    }

    // ---------------------------------------------------------------- lhs (E1, v) op rhs (E2, c2)
    static void binary(Val v, i64 c2, bool arith)
    {
        char const* sub = arith ? "arith" : "cmp";
        Case k          = mk(sub, v, c2);
        vf::Flight<Case> fl(sub, k);
        if (!fitsk(K2 == 2 ? 1 : K2, c2)) { return; }
        if (K2 == 2 && abs128(c2) > P53) { return; }
        i128 A = i128{v.n} * M.f1;              // scaled by v.scale()
        i128 B = i128{c2} * M.f2 * v.scale();   // same scale
        bool ok, exact;
        if constexpr (KC != 2) {
            ok    = fits64(A) && fitsk(KC, A) && fits64(B) && fitsk(KC, B);
            exact = ok;
        } else {
            ok    = true;
            exact = abs128(A) <= P53 && abs128(B) <= P53;
        }
        if (arith) { lab(L_ARITH_DOM, ok); }
        if (!ok) { return; }
        auto const a  = v.as<R1>();
        auto const b  = static_cast<R2>(c2);
        auto const nm = n1() + "(" + vstr(a) + ") ";
        auto const nr = " " + n2() + "(" + vstr(b) + ")";
        E1 const el{a};
        E2 const er{b};
        S1 const sl{a};
        S2 const sr{b};
        if (!arith) {
            bool const e[6] = {el == er, el != er, el < er, el <= er, el > er, el >= er};
            bool const s[6] = {sl == sr, sl != sr, sl < sr, sl <= sr, sl > sr, sl >= sr};
            char const* const ops[6] = {"==", "!=", "<", "<=", ">", ">="};
            bool const x[6] = {A == B, A != B, A < B, A <= B, A > B, A >= B};
            for (int o = 0; o < 6; ++o) {
                REQUIRE(k, e[o] == s[o], nm + ops[o] + nr + ": etl " + vstr(e[o]) + " std::chrono " + vstr(s[o]));
                if (exact) { REQUIRE(k, e[o] == x[o], nm + ops[o] + nr + ": etl " + vstr(e[o]) + " exact " + vstr(x[o])); }
            }
            g_t.n[S_CMP] += 6;
            return;
        }
        // + and -
        if (KC == 2 || (fitsk(KC, A + B) && fitsk(KC, A - B))) {
            auto const ep = (el + er);
            auto const sp = (sl + sr);
            auto const em = (el - er);
            auto const sm = (sl - sr);
            REQUIRE(k, (std::is_same_v<typename decltype(ep)::rep, typename decltype(sp)::rep>), "rep of the result of operator+ differs from std");
            REQUIRE(k, decltype(ep)::period::num == decltype(sp)::period::num && decltype(ep)::period::den == decltype(sp)::period::den, "period of the result of operator+ differs from std");
            REQUIRE(k, same(ep.count(), sp.count()), nm + "+" + nr + ": etl " + vstr(ep.count()) + " std::chrono " + vstr(sp.count()));
            REQUIRE(k, same(em.count(), sm.count()), nm + "-" + nr + ": etl " + vstr(em.count()) + " std::chrono " + vstr(sm.count()));
            if (exact && abs128(A + B) <= (KC == 2 ? P53 : (i128{1} << 100)) && abs128(A - B) <= (KC == 2 ? P53 : (i128{1} << 100))) {
                RC xp = exact_as<RC>(A + B, v.scale());
                RC xm = exact_as<RC>(A - B, v.scale());
                REQUIRE(k, same(ep.count(), xp), nm + "+" + nr + ": etl " + vstr(ep.count()) + " exact " + vstr(xp));
                REQUIRE(k, same(em.count(), xm), nm + "-" + nr + ": etl " + vstr(em.count()) + " exact " + vstr(xm));
            }
            g_t.n[S_ARITH] += 2;
        }
        if (B != 0) {
            if constexpr (KC != 2) {
                if (!(A == (KC == 0 ? i128{INT32_MIN} : i128{INT64_MIN}) && B == -1)) {
                    auto const eq = el / er;
                    auto const sq = sl / sr;
                    auto const em = el % er;
                    auto const sm = sl % sr;
                    REQUIRE(k, (std::is_same_v<decltype(eq), decltype(sq)>), "type of duration / duration differs from std");
                    REQUIRE(k, eq == sq && eq == static_cast<RC>(A / B), nm + "/" + nr + ": etl " + vstr(eq) + " std::chrono " + vstr(sq) + " exact " + s128(A / B));
                    REQUIRE(k, em.count() == sm.count() && em.count() == static_cast<RC>(A % B), nm + "%" + nr + ": etl " + vstr(em.count()) + " std::chrono " + vstr(sm.count()) + " exact " + s128(A % B));
                    REQUIRE(k, decltype(em)::period::num == decltype(sm)::period::num && decltype(em)::period::den == decltype(sm)::period::den, "period of the result of operator% differs from std");
                    g_t.n[S_ARITH] += 2;
                }
            } else {
                auto const eq = el / er;
                auto const sq = sl / sr;
                REQUIRE(k, (std::is_same_v<decltype(eq), decltype(sq)>), "type of duration / duration differs from std");
                REQUIRE(k, same(eq, sq), nm + "/" + nr + ": etl " + vstr(eq) + " std::chrono " + vstr(sq));
                if (exact && A % B == 0 && abs128(A / B) <= P53) { REQUIRE(k, same(eq, static_cast<RC>(static_cast<i64>(A / B))), nm + "/" + nr + ": etl " + vstr(eq) + " exact " + s128(A / B)); }
                g_t.n[S_ARITH] += 1;
            }
        }
    }

    // ---------------------------------------------------------------- time_point members, comparisons, rounding
    static void tp(Val v, i64 c2)
    {
        Case k = mk("time_point", v, c2);
        vf::Flight<Case> fl("time_point", k);
        using ET1 = ec::time_point<ec::system_clock, E1>;
        using ET2 = ec::time_point<ec::system_clock, E2>;
        using ST1 = sc::time_point<sc::system_clock, S1>;
        using ST2 = sc::time_point<sc::system_clock, S2>;
        auto const a = v.as<R1>();
        auto const nm = "time_point<system_clock," + n1() + ">(" + vstr(a) + ")";
        ET1 const et{E1{a}};
        ST1 const st{S1{a}};
        REQUIRE(k, same(et.time_since_epoch().count(), st.time_since_epoch().count()) && same(ET1{}.time_since_epoch().count(), R1{}), nm + ".time_since_epoch()");
        REQUIRE(k, same(ET1::min().time_since_epoch().count(), ST1::min().time_since_epoch().count()) && same(ET1::max().time_since_epoch().count(), ST1::max().time_since_epoch().count()), "time_point::min/max differ from std");
        // comparisons with a time_point of the other duration type
        if (fitsk(K2 == 2 ? 1 : K2, c2) && !(K2 == 2 && abs128(c2) > P53)) {
            i128 A = i128{v.n} * M.f1;
            i128 B = i128{c2} * M.f2 * v.scale();
            bool ok, exact;
            if constexpr (KC != 2) {
                ok    = fits64(A) && fitsk(KC, A) && fits64(B) && fitsk(KC, B);
                exact = ok;
            } else {
                ok    = true;
                exact = abs128(A) <= P53 && abs128(B) <= P53;
            }
            if (ok) {
                auto const b = static_cast<R2>(c2);
                ET2 const eu{E2{b}};
                ST2 const su{S2{b}};
                bool const e[6] = {et == eu, et != eu, et < eu, et <= eu, et > eu, et >= eu};
                bool const s[6] = {st == su, st != su, st < su, st <= su, st > su, st >= su};
                bool const x[6] = {A == B, A != B, A < B, A <= B, A > B, A >= B};
                char const* const ops[6] = {"==", "!=", "<", "<=", ">", ">="};
                for (int o = 0; o < 6; ++o) {
                    REQUIRE(k, e[o] == s[o] && (!exact || e[o] == x[o]), nm + " " + ops[o] + " time_point<system_clock," + n2() + ">(" + vstr(b) + "): etl " + vstr(e[o]) + " std::chrono " + vstr(s[o]));
                }
                g_t.n[S_TP] += 6;
            }
        }
        // floor / ceil / round of a time_point
        {
            auto const dom = cast_dom(M, v);
            bool ok        = dom.ok && dom.exact && round_dom(M, v, q_trunc(dom.num, dom.den));
            if (ok) {
                if constexpr (K2 != 2) {
                    auto const ef = ec::floor<E2>(et).time_since_epoch().count();
                    auto const ce = ec::ceil<E2>(et).time_since_epoch().count();
                    auto const er = ec::round<E2>(et).time_since_epoch().count();
                    auto const sf = sc::floor<S2>(st).time_since_epoch().count();
                    auto const sce = sc::ceil<S2>(st).time_since_epoch().count();
                    auto const sr = sc::round<S2>(st).time_since_epoch().count();
                    REQUIRE(k, ef == sf && ce == sce && er == sr && ef == static_cast<R2>(q_floor(dom.num, dom.den)) && ce == static_cast<R2>(q_ceil(dom.num, dom.den)) && er == static_cast<R2>(q_round_even(dom.num, dom.den)),
                        "floor/ceil/round<" + n2() + ">(" + nm + "): etl " + vstr(ef) + " " + vstr(ce) + " " + vstr(er) + " std::chrono " + vstr(sf) + " " + vstr(sce) + " " + vstr(sr));
                    g_t.n[S_TP] += 3;
                } else {
                    auto const ef = ec::floor<E2>(et).time_since_epoch().count();
                    auto const ce = ec::ceil<E2>(et).time_since_epoch().count();
                    auto const sf = sc::floor<S2>(st).time_since_epoch().count();
                    auto const sce = sc::ceil<S2>(st).time_since_epoch().count();
                    REQUIRE(k, same(ef, sf) && same(ce, sce), "floor/ceil<" + n2() + ">(" + nm + "): etl " + vstr(ef) + " " + vstr(ce) + " std::chrono " + vstr(sf) + " " + vstr(sce));
                    g_t.n[S_TP] += 2;
                }
            }
        }
        // members that change the time point (same duration type)
        if constexpr (I == J && std::is_same_v<R1, R2>) {
            auto lim = [](i128 x) { return K1 == 2 ? abs128(x) <= P53 : fitsk(K1, x); };
            i128 n   = v.n;
            i128 m2  = i128{c2} * v.scale();
            if (lim(n + m2) && lim(n - m2) && lim(n + v.scale()) && lim(n - v.scale()) && fitsk(K1 == 2 ? 1 : K1, c2)) {
                auto const s = static_cast<R1>(c2);
                ET1 p{E1{a}}, q{E1{a}}, r{E1{a}}, u{E1{a}}, w{E1{a}}, z{E1{a}};
                ST1 sp{S1{a}}, sq{S1{a}}, sr{S1{a}}, su{S1{a}}, sw{S1{a}}, sz{S1{a}};
                p += E1{s};
                q -= E1{s};
                sp += S1{s};
                sq -= S1{s};
                auto r1 = (++r).time_since_epoch().count();
                auto r2 = (--u).time_since_epoch().count();
                auto r3 = (w++).time_since_epoch().count();
                auto r4 = (z--).time_since_epoch().count();
                auto s1 = (++sr).time_since_epoch().count();
                auto s2 = (--su).time_since_epoch().count();
                auto s3 = (sw++).time_since_epoch().count();
                auto s4 = (sz--).time_since_epoch().count();
                REQUIRE(k, same(p.time_since_epoch().count(), sp.time_since_epoch().count()) && same(q.time_since_epoch().count(), sq.time_since_epoch().count()), nm + " += / -= " + vstr(s));
                REQUIRE(k, same(r1, s1) && same(r2, s2) && same(r3, s3) && same(r4, s4) && same(w.time_since_epoch().count(), sw.time_since_epoch().count()) && same(z.time_since_epoch().count(), sz.time_since_epoch().count()),
                    nm + " ++/--: etl " + vstr(r1) + " " + vstr(r2) + " " + vstr(r3) + " " + vstr(r4) + " std " + vstr(s1) + " " + vstr(s2) + " " + vstr(s3) + " " + vstr(s4));
                g_t.n[S_TP] += 6;
            }
        }
    }

    // ---------------------------------------------------------------- driver for one first count
    static void second_counts(Val v, i64 (&out)[8], int& n)
    {
        // counts of the second operand derived from the first: the P2 tick at / next to the same instant, mirrored,
        // the same number, and small constants
        i128 q = q_floor(i128{v.n} * M.N, i128{v.scale()} * M.D);
        n      = 0;
        auto add = [&](i128 x) {
            if (!fits64(x)) { return; }
            for (int t = 0; t < n; ++t) {
                if (out[t] == static_cast<i64>(x)) { return; }
            }
            out[n++] = static_cast<i64>(x);
        };
        add(q);
        add(q + 1);
        add(-q);
        add(v.n);
        add(3);
        add(-7);
        add(0);
    }

    static void one(int sub, Val v, i64 c2)
    {
        switch (sub) {
        case S_CAST: cast(v); break;
        case S_FLOOR: fcr(v, 0); break;
        case S_CEIL: fcr(v, 1); break;
        case S_ROUND: fcr(v, 2); break;
        case S_COMMON: common(v, c2); break;
        case S_CONVERT: convert(v); break;
        case S_UNARY: unary(v, c2); break;
        case S_ARITH: binary(v, c2, true); break;
        case S_CMP: binary(v, c2, false); break;
        case S_TP: tp(v, c2); break;
        default: break;
        }
    }

    static void all(Val v)
    {
        cast(v);
        fcr(v, 0);
        fcr(v, 1);
        fcr(v, 2);
        convert(v);
        i64 cs[8];
        int n = 0;
        second_counts(v, cs, n);
        for (int t = 0; t < n; ++t) {
            binary(v, cs[t], true);
            binary(v, cs[t], false);
            if (t < 4) { tp(v, cs[t]); }
            if (t == 0 || t == 4) { common(v, cs[t]); }
            unary(v, cs[t]);
        }
        lab(L_NEG, v.n < 0);
        lab(L_NONINT, M.D != 1);
        lab(L_BIG, abs128(v.n) >= (i128{1} << 31));
    }

    static auto nontrivial(Val v) -> bool { return v.n < 0 || M.D != 1 || q_tie(i128{v.n} * M.N, i128{v.scale()} * M.D); }

    static void entry(int mode, int sub, Val v, i64 c2, vf::Ctx* c)
    {
        if (mode == 1) { // replay one case
            one(sub, v, c2);
            return;
        }
        // ---- the enumerated grid
        i64 const span = c->thorough() ? 20000 : 2000;
        std::uint64_t nt = 0;
        auto run = [&](Val x) {
            if constexpr (K1 == 0) {
                if (!fits32(x.n)) { return; }
            }
            all(x);
            if (nontrivial(x)) { ++nt; }
        };
        for (i64 n = -span; n <= span; ++n) {
            run(Val{n, 0});
            if constexpr (K1 == 2) { run(Val{n, 1}); }
        }
        for (i64 base : {i64{1} << 31, i64{1} << 62}) {
            for (i64 d = -2; d <= 2; ++d) {
                i64 dd = (K1 == 2 && base > (i64{1} << 53)) ? d * 1024 : d; // stay exactly representable in double
                run(Val{base + dd, 0});
                run(Val{-(base + dd), 0});
            }
        }
        if constexpr (K1 == 0) {
            for (i64 n : {i64{INT32_MAX}, i64{INT32_MAX} - 1, i64{INT32_MIN}, i64{INT32_MIN} + 1}) { run(Val{n, 0}); }
        } else if constexpr (K1 == 1) {
            for (i64 n : {INT64_MAX, INT64_MAX - 1, INT64_MIN, INT64_MIN + 1}) { run(Val{n, 0}); }
        }
        vf::nontrivial_count(nt);
        // ---- seeded random counts over the whole range of the rep (bit width chosen uniformly)
        vf::Rng rng(c->seed * 1000003ULL + static_cast<std::uint64_t>(C * 100 + I * 10 + J));
        int const nrand = c->thorough() ? 100000 : 1500;
        for (int r = 0; r < nrand; ++r) {
            int const maxw = K1 == 0 ? 31 : K1 == 1 ? 63 : 53;
            auto const w   = static_cast<int>(rng.below(static_cast<std::uint64_t>(maxw))) + 1;
            auto mag       = static_cast<i64>(rng.next() >> (64 - w));
            i64 n          = (rng.next() & 1) ? mag : -mag;
            Val x{n, (K1 == 2 && (rng.next() & 3) == 0 && abs128(n) < (i128{1} << 40)) ? 1 : 0};
            all(x);
            if (nontrivial(x)) { vf::nontrivial(vf::mix(vf::mix(vf::mix(0x12ULL, C * 100 + I * 10 + J), x.n), x.frac)); }
        }
        vf::sample("cast", [&] { return "duration_cast/floor/ceil/round<" + n2() + ">(" + n1() + "(c)) for every c in [-" + std::to_string(span) + "," + std::to_string(span) + "] and around +-2^31, +-2^62"; });
    }
};

// ------------------------------------------------------------------------------------------------ dispatch table
using Entry = void (*)(int, int, Val, i64, vf::Ctx*);

// etl::common_type<duration, duration> evaluates etl::lcm / etl::gcd of the periods in a constant expression; if that
// is not a constant expression (signed overflow inside lcm) the duration types of the group cannot even be named.
// The probe turns that hard error into a run-time failure with a case string.
template <i64 A, i64 B>
concept lcm_gcd_const = requires { typename std::integral_constant<int, (etl::lcm(A, B), etl::gcd(A, B), 0)>; };

template <int C, int I, int J, i64 A, i64 B>
struct Broken {
    static void entry(int, int, Val, i64, vf::Ctx*)
    {
        Case k{"common", C, I, J, 0, 0, 0};
        vf::Flight<Case> fl("common", k);
        vf::mismatch("common", k,
            "common_type of duration<" + per_name(I) + "> and duration<" + per_name(J) + "> is ill-formed: etl::lcm(" + std::to_string(A) + ", " + std::to_string(B)
                + ") is not a constant expression (overflow in m*n although the result " + std::to_string(std::lcm(A, B)) + " is representable)");
    }
};
// groups are dealt to the slices so that every slice sees every rep combination
constexpr bool in_slice(int g) { return (g % 100 + 3 * (g / 100)) % C12_NSLICES == C12_SLICE; }
template <int G>
constexpr auto pick() -> Entry
{
    constexpr int C = G / 100, I = (G / 10) % 10, J = G % 10;
    constexpr i64 ctd = std::lcm(PD[I], PD[J]);
    if constexpr (!in_slice(G)) {
        return nullptr;
    } else if constexpr (!lcm_gcd_const<PD[I], PD[J]>) {
        return &Broken<C, I, J, PD[I], PD[J]>::entry;
    } else if constexpr (!lcm_gcd_const<ctd, ctd>) { // needed by common_type_t<CT> (unary + and - of the common type)
        return &Broken<C, I, J, ctd, ctd>::entry;
    } else if constexpr (!lcm_gcd_const<PD[I], PD[I]>) {
        return &Broken<C, I, J, PD[I], PD[I]>::entry;
    } else if constexpr (!lcm_gcd_const<PD[J], PD[J]>) {
        return &Broken<C, I, J, PD[J], PD[J]>::entry;
    } else if constexpr (true) {
        return &Group<typename Combo<C>::r1, typename Combo<C>::r2, I, J, C>::entry;
    } else {
        return nullptr;
    }
}
template <int... G>
constexpr auto make_table(std::integer_sequence<int, G...>) -> std::array<Entry, sizeof...(G)>
{
    return {pick<G>()...};
}
auto const g_table = make_table(std::make_integer_sequence<int, NCOMBO * 100>{});

// ------------------------------------------------------------------------------------------------ named aliases / literals
struct AliasFact {
    char const* name;
    long long en, ed, sn, sd;
    int ebits, minbits;
    bool esigned;
};
template <typename E, typename S>
auto fact(char const* name, int minbits) -> AliasFact
{
    return {name, E::period::num, E::period::den, S::period::num, S::period::den, static_cast<int>(sizeof(typename E::rep) * 8), minbits, std::is_signed_v<typename E::rep> && std::is_integral_v<typename E::rep>};
}
void aliases(int only)
{
    using namespace etl::literals::chrono_literals;
    using namespace std::chrono_literals;
    AliasFact const facts[] = {
        fact<ec::nanoseconds, sc::nanoseconds>("nanoseconds", 64),
        fact<ec::microseconds, sc::microseconds>("microseconds", 55),
        fact<ec::milliseconds, sc::milliseconds>("milliseconds", 45),
        fact<ec::seconds, sc::seconds>("seconds", 35),
        fact<ec::minutes, sc::minutes>("minutes", 29),
        fact<ec::hours, sc::hours>("hours", 23),
        fact<ec::days, sc::days>("days", 25),
        fact<ec::weeks, sc::weeks>("weeks", 22),
        fact<ec::months, sc::months>("months", 20),
        fact<ec::years, sc::years>("years", 17),
        // literal operators (integer and floating-point forms): type of the result
        fact<decltype(1_h), decltype(1h)>("1_h", 23),
        fact<decltype(1_min), decltype(1min)>("1_min", 29),
        fact<decltype(1_s), decltype(1s)>("1_s", 35),
        fact<decltype(1_ms), decltype(1ms)>("1_ms", 45),
        fact<decltype(1_us), decltype(1us)>("1_us", 55),
        fact<decltype(1_ns), decltype(1ns)>("1_ns", 64),
    };
    int idx = 0;
    for (auto const& f : facts) {
        int const me = idx++;
        if (only >= 0 && only != me) { continue; }
        Case k{"alias", 0, 0, 0, me, 0, 0};
        vf::Flight<Case> fl("alias", k);
        REQUIRE(k, f.en == f.sn && f.ed == f.sd, std::string("etl::chrono::") + f.name + "::period is ratio<" + std::to_string(f.en) + "," + std::to_string(f.ed) + ">, std::chrono has ratio<" + std::to_string(f.sn) + "," + std::to_string(f.sd) + ">");
        REQUIRE(k, f.esigned && f.ebits >= f.minbits, std::string("etl::chrono::") + f.name + "::rep must be a signed integer of at least " + std::to_string(f.minbits) + " bits, has " + std::to_string(f.ebits));
        vf::eval("alias");
        vf::nontrivial_count();
    }
    {
        Case k{"alias", 0, 0, 0, 100, 0, 0};
        if (only < 0 || only == 100) {
            vf::Flight<Case> fl("alias", k);
            REQUIRE(k, (12_h).count() == 12 && (12_min).count() == 12 && (12_s).count() == 12 && (12_ms).count() == 12 && (12_us).count() == 12 && (12_ns).count() == 12, "integer chrono literal does not keep its count");
            REQUIRE(k, (1.5_h).count() == 1.5L && (1.5_min).count() == 1.5L && (1.5_s).count() == 1.5L && (1.5_ms).count() == 1.5L && (1.5_us).count() == 1.5L && (1.5_ns).count() == 1.5L, "floating chrono literal does not keep its count");
            REQUIRE(k, (decltype(1.5_h)::period::num == 3600 && decltype(1.5_min)::period::num == 60 && decltype(1.5_s)::period::den == 1 && decltype(1.5_ms)::period::den == 1000 && decltype(1.5_us)::period::den == 1000000
                           && decltype(1.5_ns)::period::den == 1000000000),
                "floating chrono literal has the wrong period");
            vf::eval("alias");
        }
    }
    // the calendar code of C11 relies on these two: one mean month is 1/12 mean year
    {
        Case k{"alias", 0, 0, 0, 101, 0, 0};
        if (only < 0 || only == 101) {
            vf::Flight<Case> fl("alias", k);
            auto const m = ec::duration_cast<ec::seconds>(ec::months{12}).count();
            auto const y = ec::duration_cast<ec::seconds>(ec::years{1}).count();
            auto const sm = sc::duration_cast<sc::seconds>(sc::months{12}).count();
            REQUIRE(k, m == y && m == sm, "duration_cast<seconds>(months{12}) = " + std::to_string(m) + ", duration_cast<seconds>(years{1}) = " + std::to_string(y) + ", std::chrono " + std::to_string(sm));
            vf::eval("alias");
        }
    }
}

auto sub_id(std::string const& s) -> int
{
    for (int i = 0; i < S_COUNT; ++i) {
        if (s == SUBS[i]) { return i; }
    }
    return -1;
}

} // namespace

void vf_run(vf::Ctx& c)
{
    if (C12_SLICE == 0 && c.shard == 0) { aliases(-1); }
    std::uint64_t work = 0;
    for (int g = 0; g < NCOMBO * 100; ++g) {
        if (g_table[static_cast<std::size_t>(g)] == nullptr) { continue; }
        if (!c.mine(work++)) { continue; }
        g_table[static_cast<std::size_t>(g)](0, 0, Val{0, 0}, 0, &c);
        flush_tally();
    }
}

std::string vf_replay(std::string const& sub, std::string const& cs)
{
    char what[64] = {0};
    int combo = 0, i = 0, j = 0, frac = 0;
    long long c1 = 0, c2 = 0;
    if (std::sscanf(cs.c_str(), "%63s %d %d %d %lld %d %lld", what, &combo, &i, &j, &c1, &frac, &c2) != 7) { return "unparseable case string"; }
    (void)sub;
    int const s = sub_id(what);
    if (s < 0) { return "unknown sub-property in case string"; }
    if (s == S_ALIAS) {
        aliases(static_cast<int>(c1));
        return "";
    }
    int const g = combo * 100 + i * 10 + j;
    if (g < 0 || g >= NCOMBO * 100 || g_table[static_cast<std::size_t>(g)] == nullptr) { return "case belongs to a group that is not compiled into this slice"; }
    g_table[static_cast<std::size_t>(g)](1, s, Val{static_cast<i64>(c1), frac}, static_cast<i64>(c2), &vf::ctx());
    return "";
}
