// C15 -- type traits, concepts, numeric_limits, ratio (and the _meta list operations) agree with the std facility of
// the same name.  Engine E4 (generated programs): gen/C15_gen.py writes, for one PART of the trait tables, the header
// C15_<part>.gen.hpp = type zoo + aliases of the generated types + the obligation table.  Every obligation is one
// `constexpr` table entry on its own source line; the COMPILER evaluates it, the BINARY reports it:
//
//     {"is_trivial<int[]>", "is_trivial.unbounded_array.integer", flags, sub, c15::V_is_trivial<c15t::T412>()},
//
// * a value/type mismatch never breaks compilation: the probe templates below compare inside `if constexpr (requires ...)`
//   and return a status code + both values / both type names;
// * an etl trait that is ILL-FORMED (hard error) for a type std answers cannot be caught by SFINAE; the generator's
//   pre-pass (g++ -fsyntax-only, "required from here" notes) moves such obligations from c15_table[] to c15_ill[] and
//   they are reported here at run time exactly like a mismatch;
// * if the etl headers of this part do not compile at all the generator defines C15_DEGRADED and the binary reports that.
//
// case string = obligation name; vf_replay looks the obligation up by name and re-evaluates (re-reads) it.
// One source file serves all parts: the registry passes -DC15_CFG="C15_<part>.cfg.hpp" -DC15_GEN="C15_<part>.gen.hpp".
//
// Operations that are not part of the check: traits/concepts without a public std counterpart (is_builtin_integer,
// is_specialized, is_implicit_default_constructible, always_false, smallest_size_t, index_constant, boolean_testable,
// weakly_equality_comparable_with, referenceable, builtin_*), the default Align of aligned_storage (implementation-
// defined), sizeof of aligned_storage/aligned_union (only >= is required), and the _cstdint/_cstddef aliases.
// is_scoped_enum has no std counterpart before C++23: its oracle is the hand model is_enum && !convertible-to-underlying.
#include C15_CFG

#if !defined(C15_DEGRADED) && !defined(C15_STD_ONLY)
    #include <etl/concepts.hpp>
    #include <etl/functional.hpp>
    #include <etl/limits.hpp>
    #include <etl/meta.hpp>
    #include <etl/ratio.hpp>
    #include <etl/type_traits.hpp>
    #include <etl/utility.hpp>
#endif

#include <concepts>
#include <cstdint>
#include <functional>
#include <limits>
#include <ratio>
#include <string_view>
#include <type_traits>
#include <utility>

#if defined(C15_STD_ONLY)
// generator's std-only pass: the same table lines are compiled with the std facility on BOTH sides
namespace etl = std;
#else
    #include "verif.hpp"
#endif

namespace z {
struct NoValue; // defined in the generated zoo
}
namespace c15 {

enum St { OK = 0, VALUE = 1, TYPE = 2, ETL_INVALID = 3, ETL_EXTRA = 4, HARD = 5, MEMBER_TYPE = 6, VALUE_RELAXED = 7 };

struct Res {
    int st{0};
    long long ev{0}, sv{0}, ev2{0}, sv2{0};
    std::string_view et{}, stt{};
    char const* alt_tag{nullptr};  // VALUE_RELAXED: exclusion tag of the known finding whose narrowed oracle etl still meets
    char const* alt_note{nullptr}; // VALUE_RELAXED: what the narrowed oracle is
};
struct Ob {
    char const* name;
    char const* tag;
    unsigned flags;
    int sub;
    Res r;
};
struct Ill {
    char const* name;
    char const* tag;
    unsigned flags;
    int sub;
};

template <class T>
constexpr auto tn_impl() -> std::string_view
{
    std::string_view p = __PRETTY_FUNCTION__;
    auto b             = p.find("T = ") + 4;
    auto e             = p.find("; std::string_view", b);
    return p.substr(b, e - b);
}
// one constant evaluation per type (the whole table is ONE constant evaluation and shares -fconstexpr-ops-limit)
template <class T>
inline constexpr std::string_view tn_v = tn_impl<T>();
template <class T>
constexpr auto tn() -> std::string_view
{
    return tn_v<T>;
}

#if !defined(C15_DEGRADED)

    // ---- value traits (bool traits, rank, alignment_of, ...): ::value and _v against std
    #define C15_VV(X, DECL, ARGS)                                                                                                    \
        template <DECL>                                                                                                    \
        constexpr auto V_##X() -> Res                                                                                      \
        {                                                                                                                  \
            Res r;                                                                                                         \
            if constexpr (requires {                                                                                       \
                              etl::X<ARGS>::value;                                                                        \
                              etl::X##_v<ARGS>;                                                                           \
                          }) {                                                                                             \
                r.ev  = static_cast<long long>(etl::X<ARGS>::value);                                                      \
                r.sv  = static_cast<long long>(std::X<ARGS>::value);                                                      \
                r.ev2 = static_cast<long long>(etl::X##_v<ARGS>);                                                         \
                r.sv2 = static_cast<long long>(std::X##_v<ARGS>);                                                         \
                r.st  = (r.ev == r.sv && r.ev2 == r.sv2) ? OK : VALUE;                                                     \
            } else {                                                                                                       \
                r.st = ETL_INVALID;                                                                                        \
            }                                                                                                              \
            return r;                                                                                                      \
        }
    #define COMMA ,
    #define C15_V(X) C15_VV(X, class T1, T1)
    #define C15_V2(X) C15_VV(X, class T1 COMMA class T2, T1 COMMA T2)
    #define C15_VH(X) C15_VV(X, class T1 COMMA class... Ts, T1 COMMA Ts...)
    #define C15_VHH(X) C15_VV(X, class T1 COMMA class T2 COMMA class... Ts, T1 COMMA T2 COMMA Ts...)

    // ---- type transformations: ::type and _t against std (presence of ::type must agree as well)
    #define C15_TT(X, DECL, ARGS)                                                                                                      \
        template <DECL>                                                                                                 \
        constexpr auto T_##X() -> Res                                                                                      \
        {                                                                                                                  \
            Res r;                                                                                                         \
            constexpr bool e = requires { typename etl::X<ARGS>::type; };                                                 \
            constexpr bool s = requires { typename std::X<ARGS>::type; };                                                 \
            if constexpr (e && s) {                                                                                        \
                using E       = typename etl::X<ARGS>::type;                                                              \
                using S       = typename std::X<ARGS>::type;                                                              \
                r.et          = tn<E>();                                                                                   \
                r.stt         = tn<S>();                                                                                   \
                bool alias_ok = false;                                                                                     \
                if constexpr (requires { typename etl::X##_t<ARGS>; }) { alias_ok = std::is_same_v<etl::X##_t<ARGS>, S>; } \
                r.st = (std::is_same_v<E, S> && alias_ok) ? OK : TYPE;                                                     \
            } else if constexpr (e) {                                                                                      \
                r.st = ETL_EXTRA;                                                                                          \
                r.et = tn<typename etl::X<ARGS>::type>();                                                                 \
            } else if constexpr (s) {                                                                                      \
                r.st  = ETL_INVALID;                                                                                       \
                r.stt = tn<typename std::X<ARGS>::type>();                                                                \
            }                                                                                                              \
            return r;                                                                                                      \
        }

    #define C15_T(X) C15_TT(X, class T1, T1)
    #define C15_TN(X) C15_TT(X, class... Ts, Ts...)
    #define C15_TH(X) C15_TT(X, class T1 COMMA class... Ts, T1 COMMA Ts...)

    // ---- concepts
    #define C15_CC(X, DECL, ARGS)                                                                                                    \
        template <DECL>                                                                                                    \
        constexpr auto C_##X() -> Res                                                                                      \
        {                                                                                                                  \
            Res r;                                                                                                         \
            r.ev = etl::X<ARGS> ? 1 : 0;                                                                                  \
            r.sv = std::X<ARGS> ? 1 : 0;                                                                                  \
            r.st = r.ev == r.sv ? OK : VALUE;                                                                              \
            return r;                                                                                                      \
        }
    #define C15_C1(X) C15_CC(X, class T1, T1)
    #define C15_C2(X) C15_CC(X, class T1 COMMA class T2, T1 COMMA T2)
    #define C15_C3(X) C15_CC(X, class T1 COMMA class T2 COMMA class T3, T1 COMMA T2 COMMA T3)
    #define C15_CH(X) C15_CC(X, class T1 COMMA class... Ts, T1 COMMA Ts...)

// clang-format off
C15_V(is_void) C15_V(is_null_pointer) C15_V(is_integral) C15_V(is_floating_point) C15_V(is_array) C15_V(is_pointer)
C15_V(is_lvalue_reference) C15_V(is_rvalue_reference) C15_V(is_member_object_pointer) C15_V(is_member_function_pointer)
C15_V(is_enum) C15_V(is_union) C15_V(is_class) C15_V(is_function) C15_V(is_reference) C15_V(is_arithmetic)
C15_V(is_fundamental) C15_V(is_object) C15_V(is_scalar) C15_V(is_compound) C15_V(is_member_pointer) C15_V(is_const)
C15_V(is_volatile) C15_V(is_signed) C15_V(is_unsigned) C15_V(is_bounded_array) C15_V(is_unbounded_array) C15_V(rank)
C15_V(alignment_of) C15_V(is_trivial) C15_V(is_trivially_copyable) C15_V(is_standard_layout) C15_V(is_empty)
C15_V(is_polymorphic) C15_V(is_abstract) C15_V(is_final) C15_V(is_aggregate) C15_V(has_virtual_destructor)
C15_V(has_unique_object_representations) C15_V(is_default_constructible) C15_V(is_copy_constructible)
C15_V(is_move_constructible) C15_V(is_copy_assignable) C15_V(is_move_assignable) C15_V(is_destructible)
C15_V(is_trivially_default_constructible)
C15_V(is_trivially_copy_assignable) C15_V(is_trivially_move_assignable) C15_V(is_trivially_destructible)
C15_V(is_nothrow_default_constructible) C15_V(is_nothrow_copy_constructible) C15_V(is_nothrow_move_constructible)
C15_V(is_nothrow_copy_assignable) C15_V(is_nothrow_move_assignable) C15_V(is_nothrow_destructible)
C15_V(is_swappable) C15_V(is_nothrow_swappable)
C15_V2(is_same) C15_V2(is_base_of) C15_V2(is_convertible) C15_V2(is_nothrow_convertible) C15_V2(is_assignable)
C15_V2(is_trivially_assignable) C15_V2(is_nothrow_assignable) C15_VH(is_constructible)
C15_VH(is_nothrow_constructible) C15_V2(is_swappable_with) C15_V2(is_nothrow_swappable_with) C15_VH(is_invocable)
C15_VHH(is_invocable_r)

C15_T(remove_const) C15_T(remove_volatile) C15_T(remove_cv) C15_T(add_const) C15_T(add_volatile) C15_T(add_cv)
C15_T(remove_reference) C15_T(add_lvalue_reference) C15_T(add_rvalue_reference) C15_T(remove_cvref) C15_T(remove_pointer)
C15_T(add_pointer) C15_T(remove_extent) C15_T(remove_all_extents) C15_T(decay) C15_T(type_identity) C15_T(make_signed)
C15_T(make_unsigned) C15_T(underlying_type) C15_TN(common_type) C15_TN(common_reference) C15_TH(invoke_result)
C15_T(unwrap_ref_decay)

C15_C1(integral) C15_C1(signed_integral) C15_C1(unsigned_integral) C15_C1(floating_point) C15_C1(destructible)
C15_C1(default_initializable) C15_C1(move_constructible) C15_C1(copy_constructible) C15_C1(movable) C15_C1(copyable)
C15_C1(semiregular) C15_C1(regular) C15_C1(equality_comparable) C15_C1(swappable)
C15_CH(constructible_from) C15_CH(invocable) C15_CH(regular_invocable) C15_CH(predicate)
C15_C2(same_as) C15_C2(derived_from) C15_C2(convertible_to) C15_C2(common_reference_with) C15_C2(common_with)
C15_C3(relation) C15_C3(equivalence_relation) C15_C3(strict_weak_order)
// clang-format on

// assignable_from: etl deliberately omits the common_reference_with clause (its common_reference is not implemented, known
// finding).  The probe also evaluates std's definition WITHOUT that clause, so that with the finding excluded the rest
// of the concept (lvalue-reference test, assignment expression, same_as<LHS>) is still compared.
template <class L, class R>
constexpr auto C_assignable_from() -> Res
{
    Res r;
    r.ev         = etl::assignable_from<L, R> ? 1 : 0;
    r.sv         = std::assignable_from<L, R> ? 1 : 0;
    bool relaxed = false;
    if constexpr (std::is_lvalue_reference_v<L>) {
        relaxed = requires(L l, R&& rr) {
            { l = std::forward<R>(rr) } -> std::same_as<L>;
        };
    }
    r.ev2 = r.ev;
    r.sv2 = relaxed ? 1 : 0;
    r.st  = r.ev == r.sv ? OK : (r.ev == r.sv2 ? VALUE_RELAXED : VALUE);
    r.alt_tag  = "assignable_from.common_reference_clause";
    r.alt_note = "etl agrees with std's definition minus the common_reference_with clause";
    return r;
}

// is_trivially_constructible ignores Args on the pinned tree and tests/type_traits pins that (known finding).  Narrowed
// oracle: etl's answer must then at least equal std::is_trivially_constructible<T> (the zero-argument form).
template <class T, class... Args>
constexpr auto V_is_trivially_constructible() -> Res
{
    Res r;
    if constexpr (requires {
                      etl::is_trivially_constructible<T, Args...>::value;
                      etl::is_trivially_constructible_v<T, Args...>;
                  }) {
        r.ev  = etl::is_trivially_constructible<T, Args...>::value ? 1 : 0;
        r.sv  = std::is_trivially_constructible<T, Args...>::value ? 1 : 0;
        r.ev2 = etl::is_trivially_constructible_v<T, Args...> ? 1 : 0;
        r.sv2 = r.sv;
        bool const zero = std::is_trivially_constructible<T>::value;
        r.st = (r.ev == r.sv && r.ev2 == r.sv2) ? OK : ((r.ev == zero && r.ev2 == zero) ? VALUE_RELAXED : VALUE);
        r.alt_tag  = "is_trivially_constructible.args_ignored";
        r.alt_note = "etl equals std::is_trivially_constructible<T> without the arguments";
    } else {
        r.st = ETL_INVALID;
    }
    return r;
}
    #define C15_TRIV_CM(X)                                                                                                 \
        template <class T>                                                                                                 \
        constexpr auto V_##X() -> Res                                                                                      \
        {                                                                                                                  \
            Res r;                                                                                                         \
            if constexpr (requires {                                                                                       \
                              etl::X<T>::value;                                                                            \
                              etl::X##_v<T>;                                                                               \
                          }) {                                                                                             \
                r.ev  = etl::X<T>::value ? 1 : 0;                                                                          \
                r.sv  = std::X<T>::value ? 1 : 0;                                                                          \
                r.ev2 = etl::X##_v<T> ? 1 : 0;                                                                             \
                r.sv2 = std::X##_v<T> ? 1 : 0;                                                                             \
                bool const zero = std::is_trivially_constructible<T>::value;                                               \
                r.st = (r.ev == r.sv && r.ev2 == r.sv2) ? OK : ((r.ev == zero && r.ev2 == zero) ? VALUE_RELAXED : VALUE);  \
                r.alt_tag  = "is_trivially_constructible.args_ignored";                                                    \
                r.alt_note = "etl equals std::is_trivially_constructible<T> without the arguments";                        \
            } else {                                                                                                       \
                r.st = ETL_INVALID;                                                                                        \
            }                                                                                                              \
            return r;                                                                                                      \
        }
C15_TRIV_CM(is_trivially_copy_constructible)
C15_TRIV_CM(is_trivially_move_constructible)

// etl has no unwrap_reference_t alias: only ::type is compared
template <class T>
constexpr auto T_unwrap_reference() -> Res
{
    Res r;
    constexpr bool e = requires { typename etl::unwrap_reference<T>::type; };
    if constexpr (e) {
        using E = typename etl::unwrap_reference<T>::type;
        using S = typename std::unwrap_reference<T>::type;
        r.et    = tn<E>();
        r.stt   = tn<S>();
        r.st    = std::is_same_v<E, S> ? OK : TYPE;
    } else {
        r.st  = ETL_INVALID;
        r.stt = tn<typename std::unwrap_reference<T>::type>();
    }
    return r;
}
template <class T>
constexpr auto X_unwrap_reference_w() -> Res
{
    Res r;
    using S = typename std::unwrap_reference<std::reference_wrapper<T>>::type;
    r.stt   = tn<S>();
    if constexpr (requires { typename etl::unwrap_reference<etl::reference_wrapper<T>>::type; }) {
        using E = typename etl::unwrap_reference<etl::reference_wrapper<T>>::type;
        r.et    = tn<E>();
        r.st    = std::is_same_v<E, S> ? OK : TYPE;
    } else {
        r.st = ETL_INVALID;
    }
    return r;
}
template <class T>
constexpr auto X_unwrap_ref_decay_w() -> Res
{
    Res r;
    using S = typename std::unwrap_ref_decay<std::reference_wrapper<T>>::type;
    r.stt   = tn<S>();
    if constexpr (requires { typename etl::unwrap_ref_decay<etl::reference_wrapper<T>>::type; }) {
        using E = typename etl::unwrap_ref_decay<etl::reference_wrapper<T>>::type;
        r.et    = tn<E>();
        r.st    = std::is_same_v<E, S> ? OK : TYPE;
    } else {
        r.st = ETL_INVALID;
    }
    return r;
}

template <class T, unsigned I>
constexpr auto X_extent() -> Res
{
    Res r;
    if constexpr (requires {
                      etl::extent<T, I>::value;
                      etl::extent_v<T, I>;
                  }) {
        r.ev  = static_cast<long long>(etl::extent<T, I>::value);
        r.sv  = static_cast<long long>(std::extent<T, I>::value);
        r.ev2 = static_cast<long long>(etl::extent_v<T, I>);
        r.sv2 = static_cast<long long>(std::extent_v<T, I>);
        if constexpr (I == 0) {
            r.ev2 += static_cast<long long>(etl::extent<T>::value) * 1000;
            r.sv2 += static_cast<long long>(std::extent<T>::value) * 1000;
        }
        r.st = (r.ev == r.sv && r.ev2 == r.sv2) ? OK : VALUE;
    } else {
        r.st = ETL_INVALID;
    }
    return r;
}

// std::is_scoped_enum is C++23; hand model: enumeration that does not convert implicitly to its underlying type
template <class T>
constexpr auto X_is_scoped_enum() -> Res
{
    Res r;
    #if defined(C15_STD_ONLY)
    return r;
    #else
    if constexpr (std::is_enum_v<T>) {
        r.sv = std::is_convertible_v<T, std::underlying_type_t<T>> ? 0 : 1;
    }
    r.sv2 = r.sv;
    if constexpr (requires {
                      etl::is_scoped_enum<T>::value;
                      etl::is_scoped_enum_v<T>;
                  }) {
        r.ev  = etl::is_scoped_enum<T>::value ? 1 : 0;
        r.ev2 = etl::is_scoped_enum_v<T> ? 1 : 0;
        r.st  = (r.ev == r.sv && r.ev2 == r.sv2) ? OK : VALUE;
    } else {
        r.st = ETL_INVALID;
    }
    return r;
    #endif
}

template <class T>
constexpr auto X_declval() -> Res
{
    Res r;
    using S = decltype(std::declval<T>());
    r.stt   = tn<S>();
    if constexpr (requires { etl::declval<T>(); }) {
        using E = decltype(etl::declval<T>());
        r.et    = tn<E>();
        r.st    = (std::is_same_v<E, S> && noexcept(etl::declval<T>()) == noexcept(std::declval<T>())) ? OK : TYPE;
    } else {
        r.st = ETL_INVALID;
    }
    return r;
}

// ---- numeric_limits
struct LD80 {
    std::uint64_t lo;
    std::uint16_t hi;
    unsigned char pad[6];
};
template <class F>
constexpr void bits(F v, long long& lo, long long& hi)
{
    hi = 0;
    if constexpr (std::is_same_v<F, float>) {
        lo = static_cast<long long>(__builtin_bit_cast(std::uint32_t, v));
    } else if constexpr (std::is_same_v<F, double>) {
        lo = static_cast<long long>(__builtin_bit_cast(std::uint64_t, v));
    } else if constexpr (std::is_same_v<F, long double>) {
        static_assert(sizeof(long double) == sizeof(LD80));
        auto x = __builtin_bit_cast(LD80, v);
        lo     = static_cast<long long>(x.lo);
        hi     = static_cast<long long>(x.hi);
    } else {
        lo = static_cast<long long>(v);
        hi = v < F{} ? -1 : 0;
    }
}

    #define C15_NL(M)                                                                                                      \
        template <class T>                                                                                                 \
        constexpr auto NL_##M() -> Res                                                                                     \
        {                                                                                                                  \
            Res r;                                                                                                         \
            if constexpr (requires { etl::numeric_limits<T>::M; }) {                                                       \
                using E = std::remove_cv_t<decltype(etl::numeric_limits<T>::M)>;                                           \
                using S = std::remove_cv_t<decltype(std::numeric_limits<T>::M)>;                                           \
                r.ev    = static_cast<long long>(etl::numeric_limits<T>::M);                                               \
                r.sv    = static_cast<long long>(std::numeric_limits<T>::M);                                               \
                r.et    = tn<E>();                                                                                         \
                r.stt   = tn<S>();                                                                                         \
                constexpr bool ty = std::is_enum_v<S> ? std::is_enum_v<E> : std::is_same_v<E, S>;                          \
                r.st = r.ev != r.sv ? VALUE : (ty ? OK : MEMBER_TYPE);                                                     \
            } else {                                                                                                       \
                r.st = ETL_INVALID;                                                                                        \
            }                                                                                                              \
            return r;                                                                                                      \
        }
    #define C15_NF(F)                                                                                                      \
        template <class T>                                                                                                 \
        constexpr auto NF_##F() -> Res                                                                                     \
        {                                                                                                                  \
            Res r;                                                                                                         \
            if constexpr (requires { etl::numeric_limits<T>::F(); }) {                                                     \
                auto e = etl::numeric_limits<T>::F();                                                                      \
                auto s = std::numeric_limits<T>::F();                                                                      \
                r.et   = tn<decltype(e)>();                                                                                \
                r.stt  = tn<decltype(s)>();                                                                                \
                if constexpr (!std::is_same_v<decltype(e), decltype(s)>) {                                                 \
                    r.st = MEMBER_TYPE;                                                                                    \
                } else {                                                                                                   \
                    bits(e, r.ev, r.ev2);                                                                                  \
                    bits(s, r.sv, r.sv2);                                                                                  \
                    r.st = (r.ev == r.sv && r.ev2 == r.sv2) ? OK : VALUE;                                                  \
                }                                                                                                          \
            } else {                                                                                                       \
                r.st = ETL_INVALID;                                                                                        \
            }                                                                                                              \
            return r;                                                                                                      \
        }
// clang-format off
C15_NL(is_specialized) C15_NL(is_signed) C15_NL(is_integer) C15_NL(is_exact) C15_NL(has_infinity) C15_NL(has_quiet_NaN)
C15_NL(has_signaling_NaN) C15_NL(has_denorm_loss) C15_NL(is_iec559) C15_NL(is_bounded) C15_NL(is_modulo) C15_NL(traps)
C15_NL(tinyness_before) C15_NL(digits) C15_NL(digits10) C15_NL(max_digits10) C15_NL(radix) C15_NL(min_exponent)
C15_NL(min_exponent10) C15_NL(max_exponent) C15_NL(max_exponent10) C15_NL(has_denorm) C15_NL(round_style)
C15_NF(min) C15_NF(lowest) C15_NF(max) C15_NF(epsilon) C15_NF(round_error) C15_NF(infinity) C15_NF(quiet_NaN)
C15_NF(signaling_NaN) C15_NF(denorm_min)
// clang-format on

// ---- ratio
template <std::intmax_t N, std::intmax_t D>
constexpr auto R_ratio() -> Res
{
    using E = etl::ratio<N, D>;
    using S = std::ratio<N, D>;
    Res r;
    r.ev  = E::num;
    r.ev2 = E::den;
    r.sv  = S::num;
    r.sv2 = S::den;
    r.st  = (r.ev == r.sv && r.ev2 == r.sv2) ? (std::is_same_v<typename E::type, etl::ratio<S::num, S::den>> ? OK : TYPE) : VALUE;
    return r;
}
    #define C15_RA(OP)                                                                                                     \
        template <std::intmax_t N1, std::intmax_t D1, std::intmax_t N2, std::intmax_t D2>                                  \
        constexpr auto R_##OP() -> Res                                                                                     \
        {                                                                                                                  \
            using E = etl::ratio_##OP<etl::ratio<N1, D1>, etl::ratio<N2, D2>>;                                             \
            using S = std::ratio_##OP<std::ratio<N1, D1>, std::ratio<N2, D2>>;                                             \
            Res r;                                                                                                         \
            r.ev  = E::num;                                                                                                \
            r.ev2 = E::den;                                                                                                \
            r.sv  = S::num;                                                                                                \
            r.sv2 = S::den;                                                                                                \
            r.st  = (r.ev == r.sv && r.ev2 == r.sv2) ? OK : VALUE;                                                         \
            return r;                                                                                                      \
        }
    #define C15_RC(OP)                                                                                                     \
        template <std::intmax_t N1, std::intmax_t D1, std::intmax_t N2, std::intmax_t D2>                                  \
        constexpr auto R_##OP() -> Res                                                                                     \
        {                                                                                                                  \
            Res r;                                                                                                         \
            r.ev  = etl::ratio_##OP<etl::ratio<N1, D1>, etl::ratio<N2, D2>>::value ? 1 : 0;                                \
            r.ev2 = etl::ratio_##OP##_v<etl::ratio<N1, D1>, etl::ratio<N2, D2>> ? 1 : 0;                                   \
            r.sv  = std::ratio_##OP<std::ratio<N1, D1>, std::ratio<N2, D2>>::value ? 1 : 0;                                \
            r.sv2 = std::ratio_##OP##_v<std::ratio<N1, D1>, std::ratio<N2, D2>> ? 1 : 0;                                   \
            r.st  = (r.ev == r.sv && r.ev2 == r.sv2) ? OK : VALUE;                                                         \
            return r;                                                                                                      \
        }
// clang-format off
C15_RA(add) C15_RA(subtract) C15_RA(multiply) C15_RA(divide)
C15_RC(equal) C15_RC(not_equal) C15_RC(less) C15_RC(less_equal) C15_RC(greater) C15_RC(greater_equal)
// clang-format on

// ---- ratio typedefs / operation results handed over as TYPES (predefined SI typedefs as operands), constants by name
template <class E, class S>
constexpr auto R_alias() -> Res
{
    Res r;
    r.ev  = E::num;
    r.ev2 = E::den;
    r.sv  = S::num;
    r.sv2 = S::den;
    r.st  = (r.ev == r.sv && r.ev2 == r.sv2) ? (std::is_same_v<typename E::type, etl::ratio<S::num, S::den>> ? OK : TYPE) : VALUE;
    return r;
}
template <class E, class S>
constexpr auto R_cmp() -> Res
{
    Res r;
    r.ev = E::value ? 1 : 0;
    r.sv = S::value ? 1 : 0;
    r.st = r.ev == r.sv ? OK : VALUE;
    return r;
}
template <class E, class S>
constexpr auto X_const_alias() -> Res
{
    Res r;
    r.ev = static_cast<long long>(E::value);
    r.sv = static_cast<long long>(S::value);
    bool ok = r.ev == r.sv && std::is_same_v<typename E::value_type, typename S::value_type>
           && std::is_same_v<typename E::type, etl::integral_constant<typename S::value_type, S::value>>;
    r.st = ok ? OK : VALUE;
    return r;
}
template <long long E, long long S>
constexpr auto X_value_eq() -> Res
{
    Res r;
    r.ev = E;
    r.sv = S;
    r.st = E == S ? OK : VALUE;
    return r;
}

// ---- _meta against hand expansion (expected type / value supplied by the generator)
template <class L, class R>
constexpr auto M_same() -> Res
{
    Res r;
    r.et  = tn<L>();
    r.stt = tn<R>();
    r.st  = std::is_same_v<L, R> ? OK : TYPE;
    return r;
}
template <class Trait>
constexpr auto M_val(long long expected) -> Res
{
    Res r;
    r.ev = static_cast<long long>(Trait::value);
    r.sv = expected;
    r.st = r.ev == r.sv ? OK : VALUE;
    return r;
}

// ---- helper templates
template <class T, T v>
constexpr auto X_integral_constant() -> Res
{
    using E = etl::integral_constant<T, v>;
    using S = std::integral_constant<T, v>;
    Res r;
    r.ev = static_cast<long long>(E::value);
    r.sv = static_cast<long long>(S::value);
    bool ok = E::value == S::value && std::is_same_v<typename E::value_type, typename S::value_type>
           && std::is_same_v<typename E::type, E> && E{}() == S{}() && static_cast<T>(E{}) == static_cast<T>(S{})
           && std::is_same_v<decltype(E::value), decltype(S::value)>;
    r.st = ok ? OK : VALUE;
    return r;
}
template <bool B, class T>
constexpr auto X_enable_if() -> Res
{
    Res r;
    constexpr bool e = requires { typename etl::enable_if<B, T>::type; };
    constexpr bool s = requires { typename std::enable_if<B, T>::type; };
    r.ev = e;
    r.sv = s;
    if constexpr (e && s) {
        r.st = (std::is_same_v<typename etl::enable_if<B, T>::type, typename std::enable_if<B, T>::type>
                && std::is_same_v<etl::enable_if_t<B, T>, std::enable_if_t<B, T>>)
                 ? OK
                 : TYPE;
    } else {
        r.st = e == s ? OK : (e ? ETL_EXTRA : ETL_INVALID);
    }
    return r;
}
template <bool B, class T, class F>
constexpr auto X_conditional() -> Res
{
    Res r;
    using E = typename etl::conditional<B, T, F>::type;
    using S = typename std::conditional<B, T, F>::type;
    r.et    = tn<E>();
    r.stt   = tn<S>();
    r.st    = (std::is_same_v<E, S> && std::is_same_v<etl::conditional_t<B, T, F>, S>) ? OK : TYPE;
    return r;
}
template <class... Ts>
constexpr auto X_void_t() -> Res
{
    Res r;
    r.st = std::is_same_v<etl::void_t<Ts...>, std::void_t<Ts...>> ? OK : TYPE;
    return r;
}
    #define C15_LOGICAL(OP)                                                                                                \
        template <int... Vs>                                                                                               \
        constexpr auto X_##OP() -> Res                                                                                     \
        {                                                                                                                  \
            Res r;                                                                                                         \
            r.ev  = static_cast<long long>(etl::OP<etl::integral_constant<int, Vs>...>::value);                            \
            r.sv  = static_cast<long long>(std::OP<std::integral_constant<int, Vs>...>::value);                            \
            r.ev2 = etl::OP##_v<etl::integral_constant<int, Vs>...> ? 1 : 0;                                               \
            r.sv2 = std::OP##_v<std::integral_constant<int, Vs>...> ? 1 : 0;                                               \
            r.st  = (r.ev == r.sv && r.ev2 == r.sv2) ? OK : VALUE;                                                         \
            return r;                                                                                                      \
        }                                                                                                                  \
        template <int... Vs>                                                                                               \
        constexpr auto X_##OP##_sc() -> Res                                                                                \
        {                                                                                                                  \
            Res r;                                                                                                         \
            r.ev = static_cast<long long>(etl::OP<etl::integral_constant<int, Vs>..., z::NoValue>::value);                 \
            r.sv = static_cast<long long>(std::OP<std::integral_constant<int, Vs>..., z::NoValue>::value);                 \
            r.st = r.ev == r.sv ? OK : VALUE;                                                                              \
            return r;                                                                                                      \
        }
C15_LOGICAL(conjunction)
C15_LOGICAL(disjunction)
template <int V>
constexpr auto X_negation() -> Res
{
    Res r;
    r.ev  = etl::negation<etl::integral_constant<int, V>>::value ? 1 : 0;
    r.sv  = std::negation<std::integral_constant<int, V>>::value ? 1 : 0;
    r.ev2 = etl::negation_v<etl::integral_constant<int, V>> ? 1 : 0;
    r.sv2 = std::negation_v<std::integral_constant<int, V>> ? 1 : 0;
    r.st  = (r.ev == r.sv && r.ev2 == r.sv2) ? OK : VALUE;
    return r;
}
template <unsigned long L, unsigned long A>
constexpr auto X_aligned_storage() -> Res
{
    using E = typename etl::aligned_storage<L, A>::type;
    using S = typename std::aligned_storage<L, A>::type;
    Res r;
    r.ev  = static_cast<long long>(alignof(E));
    r.sv  = static_cast<long long>(alignof(S));
    r.ev2 = static_cast<long long>(sizeof(E));
    r.sv2 = static_cast<long long>(sizeof(S));
    bool ok = alignof(E) == alignof(S) && sizeof(E) >= L && std::is_trivial_v<E> && std::is_standard_layout_v<E>
           && std::is_same_v<etl::aligned_storage_t<L, A>, E>;
    r.st = ok ? OK : VALUE;
    if (ok) { r.ev2 = r.sv2 = 0; }
    return r;
}
template <unsigned long L, class... Ts>
constexpr auto X_aligned_union() -> Res
{
    using EU = etl::aligned_union<L, Ts...>;
    using SU = std::aligned_union<L, Ts...>;
    using E  = typename EU::type;
    using S  = typename SU::type;
    Res r;
    r.ev  = static_cast<long long>(EU::alignment_value);
    r.sv  = static_cast<long long>(SU::alignment_value);
    r.ev2 = static_cast<long long>(alignof(E));
    r.sv2 = static_cast<long long>(alignof(S));
    unsigned long need = L;
    ((need = sizeof(Ts) > need ? sizeof(Ts) : need), ...);
    bool ok = r.ev == r.sv && r.ev2 == r.sv2 && sizeof(E) >= need && std::is_trivial_v<E> && std::is_standard_layout_v<E>
           && std::is_same_v<etl::aligned_union_t<L, Ts...>, E>;
    r.st = ok ? OK : VALUE;
    return r;
}
constexpr auto X_is_constant_evaluated() -> Res
{
    Res r;
    r.ev = etl::is_constant_evaluated() ? 1 : 0;
    r.sv = std::is_constant_evaluated() ? 1 : 0;
    r.st = r.ev == r.sv ? OK : VALUE;
    return r;
}

#endif // !C15_DEGRADED
} // namespace c15


#include C15_GEN

#if !defined(C15_STD_ONLY)
// ------------------------------------------------------------------------------------------------ run time
namespace c15 {
static char const* const sub_names[] = {"unary_value", "unary_type", "binary", "concepts", "limits", "ratio", "meta", "misc"};

struct Case {
    char const* name;
};
inline auto show_case(Case const& c) -> std::string { return c.name; }

inline auto sv(std::string_view s) -> std::string { return std::string(s); }

inline auto detail(char const* name, Res const& r) -> std::string
{
    std::string n = name;
    switch (r.st) {
    case OK: return "";
    case VALUE: {
        std::string d = "etl::" + n + " = " + std::to_string(r.ev) + ", std::" + n + " = " + std::to_string(r.sv);
        if (r.ev2 != r.sv2 || r.ev2 != 0) {
            d += " (second component / _v form: etl " + std::to_string(r.ev2) + ", std " + std::to_string(r.sv2) + ")";
        }
        return d;
    }
    case VALUE_RELAXED:
        return "etl::" + n + " = " + std::to_string(r.ev) + ", std::" + n + " = " + std::to_string(r.sv)
             + " (" + (r.alt_note ? r.alt_note : "") + ")";
    case TYPE: return "etl::" + n + " is '" + sv(r.et) + "', std::" + n + " is '" + sv(r.stt) + "' (or the _t alias / ::type differs)";
    case ETL_INVALID:
        return "etl::" + n + " has no usable member (substitution failure on ::value / ::type / _v) although std::" + n + " is valid";
    case ETL_EXTRA: return "etl::" + n + " names a type ('" + sv(r.et) + "') although std::" + n + " has no member type";
    case MEMBER_TYPE: return "etl::" + n + " has type '" + sv(r.et) + "', std::" + n + " has type '" + sv(r.stt) + "'";
    default: return "etl::" + n + " status " + std::to_string(r.st);
    }
}
inline auto ill_detail(char const* name) -> std::string
{
    std::string n = name;
    return "etl::" + n + " is ill-formed (hard error, breaks the translation unit) although std::" + n + " is valid";
}

// An obligation carries "shape-tag|base-tag", e.g. "swappable.lref.adl_swap_class|swappable@adl_swap_class".
// An exclusion tag excludes the obligation if it equals one of the two or is a '.'-prefix of one of them
// ("is_empty.final_class" also excludes "is_empty.final_class.cv"; "numeric_limits.wchar_t" excludes every member).
inline auto excluded_by(std::string_view tags) -> std::string const*
{
    while (!tags.empty()) {
        auto bar           = tags.find('|');
        std::string_view t = tags.substr(0, bar);
        for (auto const& e : vf::ctx().exclude) {
            if (t == e || (t.size() > e.size() && t.substr(0, e.size()) == e && t[e.size()] == '.')) { return &e; }
        }
        if (bar == std::string_view::npos) { break; }
        tags.remove_prefix(bar + 1);
    }
    return nullptr;
}

inline void account(unsigned flags)
{
    vf::label("type is non-trivial (decorated or special kind)", (flags & 1U) != 0);
    vf::label("type has >= 1 decorator", (flags & 2U) != 0);
    vf::label("type has 2 decorators", (flags & 4U) != 0);
    vf::label("class or union involved", (flags & 8U) != 0);
    vf::label("function type involved", (flags & 16U) != 0);
    vf::label("reference involved", (flags & 32U) != 0);
    vf::label("array involved", (flags & 64U) != 0);
    vf::label("member pointer involved", (flags & 128U) != 0);
    vf::label("enum involved", (flags & 256U) != 0);
    vf::label("cv-qualified at top level", (flags & 512U) != 0);
}
} // namespace c15

void vf_run(vf::Ctx& c)
{
    using namespace c15;
    bool const list = std::getenv("VERIF_C15_LIST") != nullptr; // development aid: print every failure, do not stop
    #if defined(C15_DEGRADED)
    {
        Case k{"headers"};
        vf::Flight<Case> fl("headers", k);
        vf::eval("headers");
        vf::mismatch("headers", k, std::string("the etl headers this part needs do not compile: ") + C15_DEGRADED);
        return;
    }
    #endif
    std::uint64_t i = 0;
    auto one       = [&](char const* name, char const* tag, unsigned flags, int sub, std::string const& d) {
        if (!c.mine(i++)) { return; }
        Case k{name};
        char const* sn = sub_names[sub];
        vf::Flight<Case> fl(sn, k);
        if (!d.empty()) {
            if (auto const* e = excluded_by(tag)) { // known finding: class excluded, counted
                vf::excluded_known(e->c_str());
                return;
            }
        }
        vf::eval(sn);
        account(flags);
        if ((flags & 1U) != 0) {
            vf::nontrivial_count();
            if ((flags & 2U) != 0 || sub >= 4) { vf::sample(sn, [&] { return std::string(name); }); } // decorated types / limits, ratio, ...
        }
        if (!d.empty()) {
            if (list) {
                std::printf("FAIL %s :: %s [%s]\n", name, d.c_str(), tag);
                return;
            }
            vf::mismatch(sn, k, d);
        }
    };
    for (auto const* o = c15_table; o->name != nullptr; ++o) {
        one(o->name, (o->r.st == VALUE_RELAXED && o->r.alt_tag != nullptr) ? o->r.alt_tag : o->tag, o->flags, o->sub, detail(o->name, o->r));
    }
    for (auto const* o = c15_ill; o->name != nullptr; ++o) {
        vf::count("obligations that are hard errors on the etl side");
        one(o->name, o->tag, o->flags, o->sub, ill_detail(o->name));
    }
}

std::string vf_replay(std::string const& /*sub*/, std::string const& cs)
{
    using namespace c15;
    #if defined(C15_DEGRADED)
    return std::string("the etl headers this part needs do not compile: ") + C15_DEGRADED;
    #endif
    for (auto const* o = c15_table; o->name != nullptr; ++o) {
        if (cs == o->name) { return detail(o->name, o->r); }
    }
    for (auto const* o = c15_ill; o->name != nullptr; ++o) {
        if (cs == o->name) { return ill_detail(o->name); }
    }
    return "obligation '" + cs + "' is not known to the generator (gen/C15_gen.py could not rebuild it from its name)";
}
#endif // !C15_STD_ONLY
