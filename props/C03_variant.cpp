// C03 — lifetimes of the alternatives of variant<TrackedA, int, TrackedB, TrackedC> (three distinct tracked types of the
// copy+move, move-only and copy-only kinds, and of the "TA" shape whose assignment operators are defaulted/trivial while
// its constructors and destructor are not: the shape that tells a bytewise defaulted variant assignment from a proper one).  Oracle: see props/C03_shared.cpp.
// Engines: E2 the complete (operation x from-index x to-index x kind) matrix in both tiers: emplace<I>, emplace<T>,
// converting assignment (rvalue / lvalue), copy / move assignment, copy / move construction, converting and in_place
// construction, etl::swap, self copy-assignment, self move-assignment, self-swap; E1 rapidcheck histories over three
// variants + all op pairs (thorough: triples) after a fixed prefix.
// Values are only compared around self copy-assignment / self-swap and for the read-back of a fresh assignment into a
// moved-from / copied-from source; index()/value after ordinary assignments is C07's business, not demanded here.  The
// alternative a variant says it holds (index()) is read through unchecked_get after every op: it must be a live object.
//
// Not part of the check: copy operations with the move-only kind (do not compile); etl::variant has no swap member.
#include <etl/variant.hpp>

#include "C03_shared.cpp"

namespace {

using namespace c03;

// a trivially destructible / trivially copyable *class* alternative: unlike `int` it is accepted by the converting
// assignment's is_assignable constraint, so `v = Pod{..}` over a live tracked alternative takes the converting path
struct Pod {
    int v;
    Pod() = default;
    Pod(int x) : v(x) { }
    [[nodiscard]] auto get() const -> int { return v; }
    friend auto operator==(Pod const&, Pod const&) -> bool = default;
    friend auto operator<=>(Pod const&, Pod const&)        = default;
};
static_assert(std::is_trivially_destructible_v<Pod> && std::is_trivially_copyable_v<Pod>);

template <typename A, typename B, typename C, typename T1 = int>
struct VAR {
    using V                  = etl::variant<A, T1, B, C>;
    static constexpr bool CP = std::is_copy_constructible_v<A>;

    template <std::size_t I>
    using alt_t = std::conditional_t<I == 0, A, std::conditional_t<I == 1, T1, std::conditional_t<I == 2, B, C>>>;
    template <std::size_t I>
    using ic = std::integral_constant<std::size_t, I>;

    template <typename F>
    static void dispatch(std::size_t i, F&& f)
    {
        switch (i % 4) {
        case 0: f(ic<0>{}); break;
        case 1: f(ic<1>{}); break;
        case 2: f(ic<2>{}); break;
        default: f(ic<3>{}); break;
        }
    }
    template <std::size_t I>
    static auto mk(int v) -> alt_t<I>
    {
        return alt_t<I>(v);
    }
    template <typename X>
    static auto val_of(X const& t) -> int
    {
        if constexpr (std::is_same_v<X, int>) {
            return t;
        } else {
            return t.get();
        }
    }
    // {index, value}; reading goes through the library's accessor and through Tracked::get() (registry-checked)
    static auto snap(V const& v) -> std::vector<int>
    {
        std::vector<int> r{static_cast<int>(v.index()), 0};
        dispatch(v.index(), [&](auto i) { r[1] = val_of(etl::unchecked_get<decltype(i)::value>(v)); });
        return r;
    }
    static void touch(V const& v)
    {
        (void)snap(v);
        dispatch(v.index(), [&](auto i) {
            constexpr auto I = decltype(i)::value;
            auto const* p    = etl::get_if<I>(&v);
            if (p != nullptr) { (void)val_of(*p); }
            (void)etl::holds_alternative<alt_t<I>>(v);
        });
        etl::visit([](auto const& e) { (void)val_of(e); }, v);
    }
    static auto with(std::size_t i, int v) -> V
    {
        V r;
        dispatch(i, [&](auto ii) { r.template emplace<decltype(ii)::value>(v); });
        return r;
    }
    // fresh assignment of alternative `to` into a moved-from / copied-from source, read back
    static void refill(V& x, std::uint32_t raw, std::size_t to, int val, Hist& h, char const* who)
    {
        int w = val + 40;
        to %= 4;
        dispatch(to, [&](auto ii) {
            constexpr auto I = decltype(ii)::value;
            switch (raw % 4) {
            case 0: x.template emplace<I>(w); break;
            case 1: x = mk<I>(w); break;
            case 2: x = V(etl::in_place_index<I>, w); break;
            default: {
                if constexpr (CP) {
                    V fresh(etl::in_place_type<alt_t<I>>, w);
                    x = fresh;
                } else {
                    x.template emplace<alt_t<I>>(w);
                }
                break;
            }
            }
        });
        auto got = snap(x);
        std::vector<int> want{static_cast<int>(to), w};
        if (got != want) { h.fail(std::string(who) + " does not read back a fresh assignment: wrote " + show(want) + " read " + show(got)); }
    }

    // ------------------------------------------------------------- ops shared by the matrix and the histories
    enum Op : std::uint32_t {
        EMPLACE_INDEX, EMPLACE_TYPE, CONV_ASSIGN_RREF, CONV_ASSIGN_CREF, COPY_ASSIGN, MOVE_ASSIGN, COPY_CTOR, MOVE_CTOR, CONV_CTOR, INPLACE_CTOR, SWAP, SELF_COPY_ASSIGN, SELF_MOVE_ASSIGN, SELF_SWAP,
        CONV_ASSIGN_OWN, WRITE, COMPARE,
        NOPS
    };
    static constexpr std::uint32_t matrix_ops = WRITE; // the ops before WRITE take a (from,to) pair

    // x currently holds `from` (whatever it is); y is another variant; `to` selects the target alternative
    static void apply(std::uint32_t code, V& x, V& y, std::size_t to, int val, std::uint32_t raw, Hist& h)
    {
        to %= 4;
        auto from = x.index();
        if constexpr (!CP) {
            if (code == CONV_ASSIGN_CREF) { code = CONV_ASSIGN_RREF; }
            if (code == COPY_ASSIGN) { code = MOVE_ASSIGN; }
            if (code == COPY_CTOR) { code = MOVE_CTOR; }
            if (code == SELF_COPY_ASSIGN) { code = SELF_MOVE_ASSIGN; }
        }
        switch (code) {
        case EMPLACE_INDEX: {
            h.cross |= (from != to);
            dispatch(to, [&](auto i) { x.template emplace<decltype(i)::value>(val); });
            break;
        }
        case EMPLACE_TYPE: {
            h.cross |= (from != to);
            dispatch(to, [&](auto i) { x.template emplace<alt_t<decltype(i)::value>>(val); });
            break;
        }
        case CONV_ASSIGN_RREF: {
            h.cross |= (from != to);
            dispatch(to, [&](auto i) { x = mk<decltype(i)::value>(val); });
            break;
        }
        case CONV_ASSIGN_CREF: {
            if constexpr (CP) {
                h.cross |= (from != to);
                dispatch(to, [&](auto i) {
                    auto const t = mk<decltype(i)::value>(val);
                    x            = t;
                });
            }
            break;
        }
        case COPY_ASSIGN: {
            if constexpr (CP) {
                // source = y re-seated to `to`
                dispatch(to, [&](auto i) { y.template emplace<decltype(i)::value>(val); });
                h.cross |= (from != to);
                x = y;
                touch(y);
                if ((raw & 1U) != 0) { refill(y, raw / 2, raw / 8, val, h, "copied-from source"); }
            }
            break;
        }
        case MOVE_ASSIGN: {
            dispatch(to, [&](auto i) { y.template emplace<decltype(i)::value>(val); });
            h.cross |= (from != to);
            h.moved = true;
            x       = std::move(y);
            touch(y);
            refill(y, raw, raw / 4, val, h, "moved-from source (move assignment)");
            break;
        }
        case COPY_CTOR: {
            if constexpr (CP) {
                V c(x);
                h.poll();
                touch(c);
                dispatch(to, [&](auto i) { c.template emplace<decltype(i)::value>(val); });
                h.cross |= (from != to);
                if ((raw & 1U) != 0) { y = std::move(c); }
                if ((raw & 2U) != 0) { refill(x, raw / 4, to, val, h, "copied-from source"); }
            }
            break;
        }
        case MOVE_CTOR: {
            h.moved = true;
            V c(std::move(x));
            h.poll();
            touch(c);
            touch(x);
            h.cross |= (from != to);
            refill(x, raw, to, val, h, "moved-from source (move construction)");
            if ((raw & 16U) != 0) { y = std::move(c); }
            break;
        }
        case CONV_CTOR: {
            dispatch(to, [&](auto i) {
                V c(mk<decltype(i)::value>(val));
                h.poll();
                touch(c);
                h.cross |= (from != to);
                x = std::move(c);
            });
            break;
        }
        case INPLACE_CTOR: {
            dispatch(to, [&](auto i) {
                constexpr auto I = decltype(i)::value;
                h.cross |= (from != to);
                if ((raw & 1U) != 0) {
                    V c(etl::in_place_index<I>, val);
                    h.poll();
                    touch(c);
                    x = std::move(c);
                } else {
                    V c(etl::in_place_type<alt_t<I>>, val);
                    h.poll();
                    touch(c);
                    x = std::move(c);
                }
            });
            break;
        }
        case SWAP: {
            dispatch(to, [&](auto i) { y.template emplace<decltype(i)::value>(val); });
            h.cross |= (from != to);
            h.swapped = true;
            using etl::swap;
            swap(x, y);
            break;
        }
        case SELF_COPY_ASSIGN: {
            if constexpr (CP) {
                auto before = snap(x);
                V& alias    = x;
                x           = alias;
                auto after  = snap(x);
                if (before != after) { h.fail("self copy-assignment changed the value: " + show(before) + " -> " + show(after)); }
                h.selfop = true;
                if ((raw & 1U) != 0) { refill(x, raw / 2, to, val, h, "self-copy-assigned object"); }
            }
            break;
        }
        case SELF_MOVE_ASSIGN: { // value unspecified afterwards: validity only
            V& alias = x;
            x        = std::move(alias);
            touch(x);
            h.selfop = true;
            if ((raw & 1U) != 0) { refill(x, raw / 2, to, val, h, "self-move-assigned object"); }
            break;
        }
        case SELF_SWAP: {
            auto before = snap(x);
            V& alias    = x;
            using etl::swap;
            swap(x, alias);
            auto after = snap(x);
            if (before != after) { h.fail("self-swap changed the value: " + show(before) + " -> " + show(after)); }
            h.selfop = true;
            if ((raw & 1U) != 0) { refill(x, raw / 2, to, val, h, "self-swapped object"); }
            break;
        }
        case CONV_ASSIGN_OWN: {
            // v = get<I>(v) through the converting assignment: [variant.assign] says "if *this holds a Tj, assigns
            // std::forward<T>(t) to the value contained in *this", i.e. a self copy-assignment of the alternative:
            // a valid call that must leave the value unchanged (const lvalue only; an rvalue may be assumed unique)
            if constexpr (CP) {
                if (from != 1 && vf::ctx().excluded("variant.assign_own_alternative")) { // known-finding exclusion (tracked alternatives only)
                    vf::excluded_known("variant.assign_own_alternative");
                    break;
                }
                auto before = snap(x);
                dispatch(from, [&](auto i) {
                    auto const& own = etl::unchecked_get<decltype(i)::value>(x);
                    x               = own;
                });
                auto after = snap(x);
                if (before != after) { h.fail("assigning a variant its own alternative changed the value: " + show(before) + " -> " + show(after)); }
                h.selfop = true;
            }
            break;
        }
        case WRITE: {
            dispatch(from, [&](auto i) { etl::unchecked_get<decltype(i)::value>(x) = mk<decltype(i)::value>(val); });
            break;
        }
        case COMPARE: {
            V const& cx = x;
            V const& cy = y;
            (void)(cx == cy);
            (void)(cx < cy);
            (void)(cx <= cy);
            (void)(cx > cy);
            (void)(cx >= cy);
            break;
        }
        default: break;
        }
    }

    // one cell of the matrix
    static auto matrix_case(std::uint32_t op, std::size_t from, std::size_t to) -> std::string
    {
        lt::reset();
        Hist h;
        {
            V x = with(from, 10 + static_cast<int>(from));
            V y = with((from + 1) % 4, 30);
            V z; // a bystander that must survive untouched
            z.template emplace<3>(77);
            touch(x);
            // two argument shapes: refill/keep variants of the op
            for (std::uint32_t raw : {0U, 0x1FU, 0x2EU}) {
                if (x.index() != from) { dispatch(from, [&](auto i) { x.template emplace<decltype(i)::value>(10 + static_cast<int>(from)); }); }
                apply(op, x, y, to, 20 + static_cast<int>(to), raw, h);
                touch(x);
                touch(y);
                touch(z);
                if (!h.step()) { break; }
            }
            if (h.err.empty() && snap(z) != std::vector<int>{3, 77}) { h.fail("a bystander variant changed"); }
        }
        if (h.err.empty()) { h.err = lt::check_empty(); }
        return h.err;
    }

    static auto run(OpsCase const& k, int stats) -> std::string
    {
        lt::reset();
        Hist h;
        {
            V o[3];
            for (auto const& op : k.ops) {
                auto xi   = op.c % 3;
                auto yi   = (xi + 1 + (op.c / 3) % 2) % 3;
                int val   = static_cast<int>((op.c >> 3) % 7) + 1;
                auto code = op.code % NOPS;
                if (stats > 1) { vf::count((std::string("var.") + op_names[code]).c_str()); }
                apply(code, o[xi], o[yi], op.a, val, op.b, h);
                for (auto const& e : o) { touch(e); }
                if (!h.step()) {
                    h.err = std::string("after ") + op_names[code] + ": " + h.err;
                    break;
                }
            }
        }
        if (h.err.empty()) { h.err = lt::check_empty(); }
        h.labels("variant", stats, k, "cvsf");
        return h.err;
    }

    static constexpr char const* const op_names[] = {"emplace<I>", "emplace<T>", "=T&& (converting)", "=T const& (converting)", "copy-assign", "move-assign+refill source", "copy-ctor", "move-ctor+refill source",
        "ctor(T&&) (converting)", "ctor(in_place)", "etl::swap", "self copy-assign", "self move-assign", "self etl::swap", "v=get<index()>(v) (converting, own alternative)", "write held alternative", "compare"};
    static_assert(sizeof(op_names) / sizeof(op_names[0]) == NOPS);
};

// ------------------------------------------------------------------ matrix cases
struct Cell {
    std::uint32_t kind, op, from, to;
};
auto show_case(Cell const& c) -> std::string { return std::to_string(c.kind) + " " + std::to_string(c.op) + " " + std::to_string(c.from) + " " + std::to_string(c.to); }

// the four element families: the three Tracked kinds (user-provided assignment) and TA (trivial, defaulted assignment)
using VCM = VAR<TV<0, Kind::copy_move>, TV<1, Kind::copy_move>, TV<2, Kind::copy_move>>;
using VMO = VAR<TV<0, Kind::move_only>, TV<1, Kind::move_only>, TV<2, Kind::move_only>>;
using VCO = VAR<TV<0, Kind::copy_only>, TV<1, Kind::copy_only>, TV<2, Kind::copy_only>>;
using VTA = VAR<TA<0>, TA<1>, TA<2>>;
using VNC = VAR<NC<0>, NC<1>, NC<2>>; // copy constructor/assignment noexcept(false): is_nothrow_* selected paths
using VAO = VAR<AO<0>, AO<1>, AO<2>>; // overloaded unary operator&
using VPD = VAR<TV<0, Kind::copy_move>, TV<1, Kind::copy_move>, TV<2, Kind::copy_move>, Pod>; // alternative 1 is a trivial class
constexpr std::uint32_t nkinds = 7;
char const* const kind_names[] = {"TCM", "TMO", "TCO", "TA (trivially assignable)", "NC (copy may throw)", "AO (overloaded operator&)", "TCM with a trivial class as alternative 1"};
// The TU is built twice (registry flags -DC03_PART=1: kinds 0..2, =2: kinds 3..5) so that the halves compile in parallel.
#ifndef C03_PART
#define C03_PART 0
#endif
constexpr std::uint32_t kind_lo = (C03_PART == 2 ? 3 : 0);
constexpr std::uint32_t kind_hi = (C03_PART == 1 ? 3 : 7);
auto run_cell(Cell const& c) -> std::string
{
    std::string d;
    switch (c.kind % nkinds) {
#if C03_PART != 2
    case 0: d = VCM::matrix_case(c.op, c.from % 4, c.to % 4); break;
    case 1: d = VMO::matrix_case(c.op, c.from % 4, c.to % 4); break;
    case 2: d = VCO::matrix_case(c.op, c.from % 4, c.to % 4); break;
#endif
#if C03_PART != 1
    case 3: d = VTA::matrix_case(c.op, c.from % 4, c.to % 4); break;
    case 4: d = VNC::matrix_case(c.op, c.from % 4, c.to % 4); break;
    case 5: d = VAO::matrix_case(c.op, c.from % 4, c.to % 4); break;
    case 6: d = VPD::matrix_case(c.op, c.from % 4, c.to % 4); break;
#endif
    default: return "";
    }
    if (d.empty()) { return d; }
    return std::string("variant<A,int,B,C> of ") + kind_names[c.kind % nkinds] + ", " + VCM::op_names[c.op % VCM::NOPS] + " from index " + std::to_string(c.from % 4) + " to index " + std::to_string(c.to % 4) + ": " + d;
}

void init_configs()
{
    configs() = {
#if C03_PART != 2
        Config{"variant<A,int,B,C>/TCM", &VCM::run, VCM::NOPS, VCM::op_names, true},
        Config{"variant<A,int,B,C>/TMO", &VMO::run, VMO::NOPS, VMO::op_names, true},
        Config{"variant<A,int,B,C>/TCO", &VCO::run, VCO::NOPS, VCO::op_names, true},
#endif
#if C03_PART != 1
        Config{"variant<A,int,B,C>/TA", &VTA::run, VTA::NOPS, VTA::op_names, true},
        Config{"variant<A,int,B,C>/NC", &VNC::run, VNC::NOPS, VNC::op_names, true},
        Config{"variant<A,int,B,C>/AO", &VAO::run, VAO::NOPS, VAO::op_names, true},
        Config{"variant<A,Pod,B,C>/TCM", &VPD::run, VPD::NOPS, VPD::op_names, true},
#endif
    };
}

} // namespace

void vf_run(vf::Ctx& c)
{
    init_configs();
    // E2: the complete matrix (every shard runs its slice; 7 element families x 15 ops x 4 x 4, split over the two builds of this TU)
    std::uint64_t n = 0;
    for (std::uint32_t kind = kind_lo; kind < kind_hi; ++kind) {
        for (std::uint32_t op = 0; op < VCM::matrix_ops; ++op) {
            for (std::uint32_t from = 0; from < 4; ++from) {
                for (std::uint32_t to = 0; to < 4; ++to) {
                    if (!c.mine(n++)) { continue; }
                    Cell cell{kind, op, from, to};
                    vf::Flight<Cell> fl("matrix", cell);
                    vf::eval("matrix");
                    vf::nontrivial_count();
                    auto d = run_cell(cell);
                    if (!d.empty()) { vf::mismatch("matrix", cell, d); }
                }
            }
        }
    }
    // three objects: x = c%3, y = (x+1+(c/3)%2)%3.  Prefix: object 0 -> alternative 2 (B), object 1 -> alternative 3 (C), object 2
    // stays A; shapes: target alternative A on (x=2,y=0), int on (x=0,y=1), C on (x=1,y=0)
    c03::run_pairs(c, {RawOp{0, 2, 0, 9}, RawOp{0, 3, 0, 16}}, {RawOp{0, 0, 1, 2}, RawOp{0, 1, 0x1F, 72}, RawOp{0, 3, 0x2E, 22}});
    c03::run_histories(c, 10000, 120000, 30);
}

std::string vf_replay(std::string const& sub, std::string const& cs)
{
    init_configs();
    if (sub == "matrix") {
        Cell c{};
        unsigned a = 0, b = 0, d = 0, e = 0;
        std::sscanf(cs.c_str(), "%u %u %u %u", &a, &b, &d, &e);
        c = Cell{a, b, d, e};
        vf::Flight<Cell> fl("matrix", c);
        return run_cell(c);
    }
    return c03::replay_history(cs);
}
