// C16 (part 4) — complex functions against glibc's C99 complex functions, and the documented special cases of lerp and
// midpoint.  RUN-TIME path only.
//
//   complex<float|double>: abs arg norm polar conj cos cosh sin sinh tan tanh log log10
//     * on a grid in the plane (|re|, |im| <= 8, step 1/4) plus seeded random points (uniform in the square and
//       log-uniform magnitudes 2^-20..8 per component): the result stays within the FIXED bound of
//       /verif/cmath_bounds.json ("complex.<fn>"), error measured norm-wise:
//           max(|d re|, |d im|) / ulp_T(max(|re_libm|, |im_libm|, abs_floor))   (scalar results: plain ulp error)
//       abs_floor is 0 except for log / log10 (2^-7): log z has a zero at z = 1, where log(abs(z)) can only be as accurate
//       as abs(z) is absolutely (glibc switches to log1p there), so next to z = 1 the error is measured absolutely,
//     * conj is exact; abs follows the hypot rules for inf/NaN components; arg follows the atan2 table for zeros.
//     Nothing else is demanded of non-finite complex arguments (C Annex G is not claimed by etl's formulas).
//   lerp(a, b, t) ([c.math.lerp]): lerp(a,b,0) == a, lerp(a,b,1) == b, lerp(a,a,t) == a for finite t, the result is not
//     NaN for finite arguments, monotonic in t (CMP(lerp(t2),lerp(t1)) * CMP(t2,t1) * CMP(b,a) >= 0), and agrees with the
//     exactly rounded a + t(b-a) within the bound "lerp" for t in [0, 1].
//   midpoint(a, b): floating point: == correctly rounded (a+b)/2 (one rounding, no overflow for huge arguments),
//     midpoint(a,a) == a, symmetric;  integers: a + (b - a)/2 rounded towards a (reference in __int128).
#include <etl/cmath.hpp>
#include <etl/complex.hpp>
#include <etl/numeric.hpp>

#include <math.h>

#include <limits>
#include <map>
#include <type_traits>

#include "verif.hpp"

#include "C16_common.hpp"

#include "C16_bounds.inc"

// libstdc++'s <complex.h> does not expose the C99 functions to C++11 and later, so glibc's entry points are declared
// here (GNU __complex__ types are ABI-identical to C's _Complex).
extern "C" {
#define C16_CDECL(name)                                                                                                 \
    __complex__ float name##f(__complex__ float) noexcept;                                                              \
    __complex__ double name(__complex__ double) noexcept;
C16_CDECL(ccos)
C16_CDECL(ccosh)
C16_CDECL(csin)
C16_CDECL(csinh)
C16_CDECL(ctan)
C16_CDECL(ctanh)
C16_CDECL(clog)
C16_CDECL(clog10)
float cabsf(__complex__ float) noexcept;
double cabs(__complex__ double) noexcept;
float cargf(__complex__ float) noexcept;
double carg(__complex__ double) noexcept;
}

namespace {
using namespace c16;

bool g_measure = false;
std::map<std::string, int> g_measure_fails;
struct Max {
    long double ulp{0};
    std::string arg;
    std::uint64_t n{0};
};
std::map<std::string, Max>& maxima()
{
    static std::map<std::string, Max> m;
    return m;
}
auto measure_swallow(std::string const& fn, std::string const& d) -> bool
{
    if (!g_measure || d.empty()) { return false; }
    auto const why = d.substr(d.rfind(" - ") + 3);
    int& n         = g_measure_fails[fn + " | " + why.substr(0, 40)];
    if (++n <= 3) { std::printf("MEASURE-FAIL %s\n", d.c_str()); }
    return true;
}

template <typename T>
auto ulp_of(long double v) -> long double
{
    using L = std::numeric_limits<T>;
    v       = ::fabsl(v);
    if (v < static_cast<long double>(L::min())) { return static_cast<long double>(L::denorm_min()); }
    int e = 0;
    (void)::frexpl(v, &e);
    return ::ldexpl(1.0L, e - L::digits);
}

// ------------------------------------------------------------------ glibc complex oracle (GNU __complex__ in C++)
template <typename T>
struct CC;
template <>
struct CC<float> {
    using C = __complex__ float;
    static auto mk(float re, float im) -> C
    {
        C z;
        __real__ z = re;
        __imag__ z = im;
        return z;
    }
};
template <>
struct CC<double> {
    using C = __complex__ double;
    static auto mk(double re, double im) -> C
    {
        C z;
        __real__ z = re;
        __imag__ z = im;
        return z;
    }
};
using CF = __complex__ float;
using CD = __complex__ double;
CF (*volatile o_ccosf)(CF)   = ::ccosf;
CF (*volatile o_ccoshf)(CF)  = ::ccoshf;
CF (*volatile o_csinf)(CF)   = ::csinf;
CF (*volatile o_csinhf)(CF)  = ::csinhf;
CF (*volatile o_ctanf)(CF)   = ::ctanf;
CF (*volatile o_ctanhf)(CF)  = ::ctanhf;
CF (*volatile o_clogf)(CF)   = ::clogf;
CF (*volatile o_clog10f)(CF) = ::clog10f;
float (*volatile o_cabsf)(CF) = ::cabsf;
float (*volatile o_cargf)(CF) = ::cargf;
CD (*volatile o_ccos)(CD)    = ::ccos;
CD (*volatile o_ccosh)(CD)   = ::ccosh;
CD (*volatile o_csin)(CD)    = ::csin;
CD (*volatile o_csinh)(CD)   = ::csinh;
CD (*volatile o_ctan)(CD)    = ::ctan;
CD (*volatile o_ctanh)(CD)   = ::ctanh;
CD (*volatile o_clog)(CD)    = ::clog;
CD (*volatile o_clog10)(CD)  = ::clog10;
double (*volatile o_cabs)(CD) = ::cabs;
double (*volatile o_carg)(CD) = ::carg;
float (*volatile o_cosf)(float)   = ::cosf;
float (*volatile o_sinf)(float)   = ::sinf;
double (*volatile o_cos)(double)  = ::cos;
double (*volatile o_sin)(double)  = ::sin;

enum Fn { F_COS, F_COSH, F_SIN, F_SINH, F_TAN, F_TANH, F_LOG, F_LOG10, F_ABS, F_ARG, F_NORM, F_POLAR, F_CONJ, F_COUNT };
char const* const k_names[]  = {"cos", "cosh", "sin", "sinh", "tan", "tanh", "log", "log10", "abs", "arg", "norm", "polar", "conj"};
char const* const k_bounds[] = {"complex.cos", "complex.cosh", "complex.sin", "complex.sinh", "complex.tan", "complex.tanh", "complex.log", "complex.log10",
    "complex.abs", "complex.arg", "complex.norm", "complex.polar", "complex.conj"};

template <typename T>
struct Z {
    T re, im;
};

template <typename T>
auto etl_c(int f, T x, T y) -> Z<T>
{
    etl::complex<T> const z{x, y};
    etl::complex<T> r{};
    switch (f) {
    case F_COS: r = etl::cos(z); break;
    case F_COSH: r = etl::cosh(z); break;
    case F_SIN: r = etl::sin(z); break;
    case F_SINH: r = etl::sinh(z); break;
    case F_TAN: r = etl::tan(z); break;
    case F_TANH: r = etl::tanh(z); break;
    case F_LOG: r = etl::log(z); break;
    case F_LOG10: r = etl::log10(z); break;
    case F_ABS: return {etl::abs(z), T(0)};
    case F_ARG: return {etl::arg(z), T(0)};
    case F_NORM: return {etl::norm(z), T(0)};
    case F_POLAR: r = etl::polar(x, y); break; // (rho, theta)
    default: r = etl::conj(z); break;
    }
    return {r.real(), r.imag()};
}

template <typename T>
auto ref_c(int f, T x, T y) -> Z<T>
{
    auto const z = CC<T>::mk(x, y);
    typename CC<T>::C r = z;
    if constexpr (sizeof(T) == 4) {
        switch (f) {
        case F_COS: r = o_ccosf(z); break;
        case F_COSH: r = o_ccoshf(z); break;
        case F_SIN: r = o_csinf(z); break;
        case F_SINH: r = o_csinhf(z); break;
        case F_TAN: r = o_ctanf(z); break;
        case F_TANH: r = o_ctanhf(z); break;
        case F_LOG: r = o_clogf(z); break;
        case F_LOG10: r = o_clog10f(z); break;
        case F_ABS: return {o_cabsf(z), 0};
        case F_ARG: return {o_cargf(z), 0};
        case F_NORM: return {static_cast<T>(static_cast<double>(x) * x + static_cast<double>(y) * y), 0};
        case F_POLAR: return {x * o_cosf(y), x * o_sinf(y)};
        default: return {x, -y};
        }
    } else {
        switch (f) {
        case F_COS: r = o_ccos(z); break;
        case F_COSH: r = o_ccosh(z); break;
        case F_SIN: r = o_csin(z); break;
        case F_SINH: r = o_csinh(z); break;
        case F_TAN: r = o_ctan(z); break;
        case F_TANH: r = o_ctanh(z); break;
        case F_LOG: r = o_clog(z); break;
        case F_LOG10: r = o_clog10(z); break;
        case F_ABS: return {o_cabs(z), 0};
        case F_ARG: return {o_carg(z), 0};
        case F_NORM: return {static_cast<T>(static_cast<long double>(x) * x + static_cast<long double>(y) * y), 0};
        case F_POLAR: return {x * o_cos(y), x * o_sin(y)};
        default: return {x, -y};
        }
    }
    return {__real__ r, __imag__ r};
}

// arguments that reach a known-finding class of the underlying real function (only with the tag)
template <typename T>
auto excluded_c(int f, T x, T y) -> bool
{
    bool const is32 = sizeof(T) == 4;
    auto hit = [&](char const* tag, bool in) {
        if (in && vf::ctx().excluded(tag)) {
            vf::excluded_known(tag);
            return true;
        }
        return false;
    };
    switch (f) {
    case F_COS:
    case F_SIN: return hit("C16.sinh.gcem", cls_sinh(y, is32));
    case F_COSH:
    case F_SINH: return hit("C16.sinh.gcem", cls_sinh(x, is32));
    case F_TAN: return hit("C16.sinh.gcem", cls_sinh(y, is32));
    case F_TANH: return hit("C16.sinh.gcem", cls_sinh(x, is32));
    case F_LOG:
    case F_LOG10: return hit("C16.atan2.gcem", cls_atan2(y, x, is32)) || hit("C16.sqrt.gcem", cls_hypot<T>(x, y, T(0)));
    case F_ABS: return hit("C16.sqrt.gcem", cls_hypot<T>(x, y, T(0)));
    case F_ARG: return hit("C16.atan2.gcem", cls_atan2(y, x, is32));
    default: return false;
    }
}

template <typename T>
auto case_c(int f, T x, T y, bool run_mode) -> std::string
{
    Case k{k_names[f], sizeof(T) == 4 ? "c32" : "c64", 2, bits(x), bits(y), 0};
    vf::Flight<Case> fl(k_bounds[f], k);
    // non-finite components are cases for abs (hypot rules) and arg (atan2 table) only: Annex G is not claimed
    if (f != F_ABS && f != F_ARG && (nan_b(x) || nan_b(y) || inf_b(x) || inf_b(y))) { return ""; }
    if (run_mode && excluded_c<T>(f, x, y)) { return ""; }
    auto const e = etl_c<T>(f, x, y);
    auto const r = ref_c<T>(f, x, y);
    auto argtxt = [&] { return show_arg(x) + ", " + show_arg(y); };
    auto fail = [&](std::string const& why) {
        return std::string(k_names[f]) + "(complex " + argtxt() + "): etl (" + show(e.re) + ", " + show(e.im) + "), libm (" + show(r.re) + ", " + show(r.im) + ") - " + why;
    };
    std::string d;
    bool const fin_r = !nan_b(r.re) && !nan_b(r.im) && !inf_b(r.re) && !inf_b(r.im);
    bool const fin_e = !nan_b(e.re) && !nan_b(e.im) && !inf_b(e.re) && !inf_b(e.im);
    if (f == F_CONJ) {
        if (!same(e.re, r.re) || !same(e.im, r.im)) { d = fail("conj is not exact"); }
    } else if (!fin_r) {
        // scalar results only (abs / arg of non-finite components): class must agree
        if (!(same(e.re, r.re))) { d = fail("libm returns a non-finite value"); }
    } else if (!fin_e) {
        d = fail("NaN/inf where libm returns a finite value");
    } else {
        // log z has a zero at z = 1: next to it the error is measured in ulps of abs_floor (2^-7), i.e. absolutely
        long double const scale = ::fmaxl(::fmaxl(::fabsl(static_cast<long double>(r.re)), ::fabsl(static_cast<long double>(r.im))), static_cast<long double>(c16_floor(k_bounds[f])));
        long double const diff  = ::fmaxl(::fabsl(static_cast<long double>(e.re) - r.re), ::fabsl(static_cast<long double>(e.im) - r.im));
        long double const u     = diff / ulp_of<T>(scale);
        if (g_measure) {
            auto& m = maxima()[std::string(k_bounds[f]) + " " + BitsOf<T>::name];
            ++m.n;
            if (u > m.ulp) {
                m.ulp = u;
                m.arg = argtxt();
            }
        } else {
            double const b = c16_bound(k_bounds[f], BitsOf<T>::name);
            if (b < 0) {
                d = fail("no bound for this function in cmath_bounds.json");
            } else if (u > static_cast<long double>(b)) {
                char buf[160];
                std::snprintf(buf, sizeof buf, "norm-wise error %.1Lf ulp > fixed bound %.0f ulp", u, b < 1e15 ? b : 1e15);
                d = fail(buf);
            }
        }
    }
    if (run_mode) {
        vf::eval(k_bounds[f]);
        if (!d.empty() && !measure_swallow(k_bounds[f], d)) { vf::mismatch(k_bounds[f], k, d); }
    }
    return d;
}

template <typename T>
void run_complex(vf::Ctx& c, vf::Rng& rng)
{
    std::uint64_t nt = 0, total = 0;
    auto all = [&](T x, T y) {
        for (int f = 0; f < F_COUNT; ++f) {
            if (f == F_POLAR && !(x >= 0)) { continue; } // polar(rho, theta): rho >= 0 is a precondition of std::polar
            case_c<T>(f, x, y, true);
        }
        ++total;
        bool const t = zero_b(x) || zero_b(y) || sign_b(x) || sign_b(y) || mag(x) < T(0x1p-10) || mag(y) < T(0x1p-10);
        nt += t;
    };
    // grid: |re|, |im| <= 8, step 1/4 (includes the axes and the origin)
    std::uint64_t idx = 0;
    for (int i = -32; i <= 32; ++i) {
        for (int j = -32; j <= 32; ++j) {
            if (!c.mine(idx++)) { continue; }
            all(static_cast<T>(i) / 4, static_cast<T>(j) / 4);
        }
    }
    // negative zeros on the axes (arg / log follow the atan2 table there)
    if (c.shard == 0) {
        for (T v : {T(1), T(-1), T(0.5), T(-2.5)}) {
            all(v, -T(0));
            all(-T(0), v);
        }
        // abs: hypot rules for non-finite components
        T const inf = std::numeric_limits<T>::infinity(), nan = std::numeric_limits<T>::quiet_NaN();
        for (T a : {inf, -inf}) {
            for (T b : {nan, T(1), T(0), inf}) {
                case_c<T>(F_ABS, a, b, true);
                case_c<T>(F_ABS, b, a, true);
            }
        }
        case_c<T>(F_ABS, nan, T(1), true);
        case_c<T>(F_ABS, T(1), nan, true);
    }
    std::uint64_t const n = (c.thorough() ? 2000000ULL : 200000ULL) / static_cast<unsigned>(c.nshards) + 1;
    for (std::uint64_t i = 0; i < n; ++i) {
        T x{}, y{};
        auto lin = [&]() { return static_cast<T>((static_cast<double>(rng.next() >> 11) / 9007199254740992.0) * 16.0 - 8.0); };
        auto lg  = [&]() {
            T v = static_cast<T>(::ldexp(1.0 + static_cast<double>(rng.next() >> 12) / 4503599627370496.0, static_cast<int>(rng.range(-20, 2))));
            return rng.below(2) != 0 ? -v : v;
        };
        switch (i % 6) {
        case 0:
            x = lin();
            y = lin();
            break;
        case 1:
            x = lg();
            y = lg();
            break;
        case 2:
            x = lin();
            y = lg();
            if (rng.below(2) != 0) { std::swap(x, y); }
            break;
        case 3: { // one component next to a multiple of pi/2 (a zero of sin or cos), the other one small: the result is
                  // small in BOTH parts, so the relative error of sinh/sin of the small component is fully visible
            int const kk = static_cast<int>(rng.range(-5, 5));
            x            = static_cast<T>(static_cast<double>(kk) * 1.5707963267948966);
            if (kk != 0) { x = from_bits<T>(static_cast<typename BitsOf<T>::type>(bits(x) + static_cast<typename BitsOf<T>::type>(rng.range(-3, 3)))); }
            int const lo = sizeof(T) == 4 ? -16 : -45;
            y            = static_cast<T>(::ldexp(1.0 + static_cast<double>(rng.next() >> 12) / 4503599627370496.0, static_cast<int>(rng.range(lo, 0))));
            if (rng.below(2) != 0) { y = -y; }
            if (rng.below(2) != 0) { std::swap(x, y); }
            break;
        }
        case 4: { // |z|^2 around epsilon (the square root of a sum of squares that is barely "distinguishable from zero")
            int const e0 = sizeof(T) == 4 ? -12 : -26;
            x            = static_cast<T>(::ldexp(1.0 + static_cast<double>(rng.next() >> 12) / 4503599627370496.0, e0 + static_cast<int>(rng.range(-2, 4))));
            y            = static_cast<T>(::ldexp(1.0 + static_cast<double>(rng.next() >> 12) / 4503599627370496.0, e0 + static_cast<int>(rng.range(-8, 4))));
            if (rng.below(2) != 0) { x = -x; }
            if (rng.below(2) != 0) { y = -y; }
            if (rng.below(2) != 0) { std::swap(x, y); }
            break;
        }
        default: { // rings around z = 1 (log z -> 0): radius 2^-j
            int const jmax = sizeof(T) == 4 ? 12 : 42;
            double const r = ::ldexp(1.0 + static_cast<double>(rng.next() >> 12) / 4503599627370496.0, -static_cast<int>(rng.range(1, jmax)));
            double const th = (static_cast<double>(rng.next() >> 11) / 9007199254740992.0) * 6.283185307179586;
            x              = static_cast<T>(1.0 + r * ::cos(th));
            y              = static_cast<T>(r * ::sin(th));
            break;
        }
        }
        all(x, y);
        if ((i & 0x3FFF) == 0x234) {
            vf::sample("complex.sin", [&] { return std::string("all complex functions on ") + (sizeof(T) == 4 ? "c32 (" : "c64 (") + show_arg(x) + ", " + show_arg(y) + ")"; });
        }
    }
    // huge arguments of the circular functions: sin/cos/tan(x + iy) with |x| up to max (any exponent), sinh/cosh/tanh(x + iy)
    // with |y| up to max, polar(rho, theta) with |theta| up to max - glibc reduces the argument exactly, so must etl::sin/cos.
    // The other component stays within [-8, 8] (no overflow of cosh / sinh).
    {
        std::uint64_t huge = 0;
        std::uint64_t const m = n / 3 + 1;
        for (std::uint64_t i = 0; i < m; ++i) {
            T big{};
            for (;;) {
                big = from_bits<T>(static_cast<typename BitsOf<T>::type>(rng.next() >> (64 - sizeof(T) * 8)));
                if (!nan_b(big) && !inf_b(big) && mag(big) >= T(1)) { break; }
            }
            if (i % 4 == 0) { // next to a multiple of pi/2 with a large multiplier
                int const kbits     = sizeof(T) == 4 ? 40 : 70;
                long double const k = ::floorl(::ldexpl(1.0L + static_cast<long double>(rng.next() >> 11) / 9007199254740992.0L, static_cast<int>(rng.below(static_cast<unsigned>(kbits)))));
                T const v           = static_cast<T>(k * 1.57079632679489661923132169163975144L);
                if (!inf_b(v) && !zero_b(v)) { big = rng.below(2) != 0 ? -v : v; }
            }
            T small = static_cast<T>((static_cast<double>(rng.next() >> 11) / 9007199254740992.0) * 16.0 - 8.0);
            if (rng.below(4) == 0) { small = static_cast<T>(::ldexp(1.0, static_cast<int>(rng.range(-12, 2)))); }
            for (int f : {F_SIN, F_COS, F_TAN}) { case_c<T>(f, big, small, true); }
            for (int f : {F_SINH, F_COSH, F_TANH}) { case_c<T>(f, small, big, true); }
            case_c<T>(F_POLAR, mag(small) + T(0.5), big, true);
            huge += mag(big) > T(3.3e6);
        }
        vf::nontrivial_count(m * 7);
        auto& ch = vf::stats().classes[std::string("complex.") + BitsOf<T>::name + ".circular argument beyond 2^20*pi"];
        ch.first += huge;
        ch.second += m;
    }
    vf::nontrivial_count(nt * F_COUNT);
    auto& cl = vf::stats().classes[std::string("complex.") + BitsOf<T>::name + ".point on an axis, in a negative half-plane or within 2^-10 of an axis"];
    cl.first += nt;
    cl.second += total;
}

// ------------------------------------------------------------------ lerp
template <typename T>
auto cmp3(T a, T b) -> int
{
    return a > b ? 1 : (a < b ? -1 : 0);
}

template <typename T>
auto lerp_case(T a, T b, T t1, T t2, bool run_mode) -> std::string
{
    Case k{"lerp", BitsOf<T>::name, 3, bits(a), bits(b), (static_cast<u64>(bits(static_cast<float>(t1))) << 32) | bits(static_cast<float>(t2))};
    vf::Flight<Case> fl("lerp", k);
    auto args = [&] { return show_arg(a) + ", " + show_arg(b); };
    auto fail = [&](std::string const& why) { return "lerp(" + args() + ", t): " + why; };
    std::string d;
    T const l0 = etl::lerp(a, b, T(0));
    T const l1 = etl::lerp(a, b, T(1));
    T const v1 = etl::lerp(a, b, t1);
    T const v2 = etl::lerp(a, b, t2);
    if (!(l0 == a)) {
        d = fail("lerp(a,b,0) = " + show(l0) + " != a");
    } else if (!(l1 == b)) {
        d = fail("lerp(a,b,1) = " + show(l1) + " != b");
    } else if (!(etl::lerp(a, a, t1) == a)) {
        d = fail("lerp(a,a," + show(t1) + ") = " + show(etl::lerp(a, a, t1)) + " != a");
    } else if (nan_b(v1) || nan_b(v2)) {
        d = fail("NaN for finite arguments, t = " + show(t1) + " / " + show(t2));
    } else if (cmp3(v2, v1) * cmp3(t2, t1) * cmp3(b, a) < 0) {
        d = fail("not monotonic: t1 = " + show(t1) + " -> " + show(v1) + ", t2 = " + show(t2) + " -> " + show(v2));
    } else if (t1 >= 0 && t1 <= 1) {
        // accuracy against the exactly rounded value (products of two T values are exact in long double for float;
        // for double the reference carries 64 bits, enough for a bound of a few ulps)
        long double const exact = static_cast<long double>(a) + static_cast<long double>(t1) * (static_cast<long double>(b) - static_cast<long double>(a));
        T const r               = static_cast<T>(exact);
        if (!inf_b(r) && !inf_b(v1)) {
            // scale: the larger of |a|, |b| (the interpolant may cancel to ~0, where only absolute accuracy is attainable)
            long double const scale = ::fmaxl(::fabsl(static_cast<long double>(a)), ::fabsl(static_cast<long double>(b)));
            long double const u     = ::fabsl(static_cast<long double>(v1) - exact) / ulp_of<T>(scale);
            if (g_measure) {
                auto& m = maxima()[std::string("lerp ") + BitsOf<T>::name];
                ++m.n;
                if (u > m.ulp) {
                    m.ulp = u;
                    m.arg = args() + ", " + show(t1);
                }
            } else {
                double const bnd = c16_bound("lerp", BitsOf<T>::name);
                if (bnd < 0 || u > static_cast<long double>(bnd)) {
                    char buf[160];
                    std::snprintf(buf, sizeof buf, "t = %s: error %.1Lf ulp(max(|a|,|b|)) > fixed bound %.0f", show(t1).c_str(), u, bnd < 1e15 ? bnd : 1e15);
                    d = fail(buf);
                }
            }
        }
    }
    if (run_mode) {
        vf::eval("lerp");
        if (!d.empty() && !measure_swallow("lerp", d + " - lerp")) { vf::mismatch("lerp", k, d); }
    }
    return d;
}

template <typename T>
void run_lerp(vf::Ctx& c, vf::Rng& rng)
{
    std::uint64_t const n = (c.thorough() ? 10000000ULL : 1000000ULL) / static_cast<unsigned>(c.nshards) + 1;
    std::uint64_t nt = 0;
    T const tv[] = {T(0), T(1), T(0.5), T(-1), T(2), T(0.25), T(0.75), T(1e-3), T(0.999), T(1.0001), T(-0.0001), T(10), T(-10)};
    for (std::uint64_t i = 0; i < n; ++i) {
        auto val = [&]() -> T {
            switch (rng.below(5)) {
            case 0: return static_cast<T>(rng.range(-20, 20));
            case 1: return static_cast<T>((static_cast<double>(rng.next() >> 11) / 9007199254740992.0) * 200.0 - 100.0);
            case 2: return T(0) * (rng.below(2) != 0 ? T(-1) : T(1));
            default: {
                int const E = sizeof(T) == 4 ? 60 : 500;
                T v         = static_cast<T>(::ldexp(1.0 + static_cast<double>(rng.next() >> 12) / 4503599627370496.0, static_cast<int>(rng.range(-E, E))));
                return rng.below(2) != 0 ? -v : v;
            }
            }
        };
        T a = val(), b = val();
        if (rng.below(8) == 0) { b = a; }
        if (rng.below(8) == 0) { b = from_bits<T>(bits(a) + 1); }
        T t1 = rng.below(2) != 0 ? tv[rng.below(13)] : static_cast<T>(static_cast<double>(rng.next() >> 11) / 9007199254740992.0);
        T t2 = rng.below(2) != 0 ? tv[rng.below(13)] : static_cast<T>((static_cast<double>(rng.next() >> 11) / 9007199254740992.0) * 3.0 - 1.0);
        if (rng.below(4) == 0) { t2 = from_bits<T>(bits(t1) + 1); }
        lerp_case<T>(a, b, static_cast<T>(static_cast<float>(t1)), static_cast<T>(static_cast<float>(t2)), true);
        nt += (a == b) || sign_b(a) != sign_b(b) || zero_b(a) || zero_b(b) || t1 == 0 || t1 == 1;
    }
    vf::nontrivial_count(nt);
    auto& cl = vf::stats().classes[std::string("lerp.") + BitsOf<T>::name + ".a == b, opposite signs, a zero end point, or t in {0, 1}"];
    cl.first += nt;
    cl.second += n;
}

// ------------------------------------------------------------------ midpoint
template <typename T>
auto midpoint_fp_case(T a, T b, bool run_mode) -> std::string
{
    Case k{"midpoint", BitsOf<T>::name, 2, bits(a), bits(b), 0};
    vf::Flight<Case> fl("midpoint", k);
    auto fail = [&](std::string const& why) { return "midpoint(" + show_arg(a) + ", " + show_arg(b) + "): " + why; };
    std::string d;
    T const m  = etl::midpoint(a, b);
    T const m2 = etl::midpoint(b, a);
    // wide enough to hold a + b exactly: callers keep the exponents of a and b within 10 (double) / 30 (float) of each other
    long double const exact = (static_cast<long double>(a) + static_cast<long double>(b)) / 2;
    T const r               = static_cast<T>(exact);
    if (!(etl::midpoint(a, a) == a)) {
        d = fail("midpoint(a,a) = " + show(etl::midpoint(a, a)) + " != a");
    } else if (!same(m, m2) && !(zero_b(m) && zero_b(m2))) {
        d = fail("not symmetric: " + show(m) + " vs " + show(m2));
    } else if (!(m == r)) {
        d = fail("etl " + show(m) + ", correctly rounded (a+b)/2 is " + show(r));
    }
    if (run_mode) {
        vf::eval("midpoint");
        if (!d.empty() && !measure_swallow("midpoint", d + " - midpoint")) { vf::mismatch("midpoint", k, d); }
    }
    return d;
}

template <typename T>
void run_midpoint_fp(vf::Ctx& c, vf::Rng& rng)
{
    using L   = std::numeric_limits<T>;
    int const spread = sizeof(T) == 4 ? 30 : 10;
    std::uint64_t const n = (c.thorough() ? 10000000ULL : 1000000ULL) / static_cast<unsigned>(c.nshards) + 1;
    std::uint64_t nt = 0;
    for (std::uint64_t i = 0; i < n; ++i) {
        int const e1 = static_cast<int>(rng.range(L::min_exponent - L::digits, L::max_exponent - 1));
        int e2       = e1 + static_cast<int>(rng.range(-spread, spread));
        if (e2 > L::max_exponent - 1) { e2 = L::max_exponent - 1; }
        auto mk = [&](int e) -> T {
            double const f = 1.0 + static_cast<double>(rng.next() >> 12) / 4503599627370496.0;
            T v            = static_cast<T>(::ldexp(f, e));
            if (inf_b(v)) { v = L::max(); }
            return rng.below(2) != 0 ? -v : v;
        };
        T a = mk(e1), b = mk(e2);
        auto const shape = rng.below(8);
        if (shape == 0) { a = rng.below(2) != 0 ? L::max() : -L::max(); }
        if (shape == 1) { b = from_bits<T>(bits(a) + static_cast<typename BitsOf<T>::type>(rng.below(4))); }
        if (shape == 2) { a = static_cast<T>(rng.range(-10, 10)), b = static_cast<T>(rng.range(-10, 10)); }
        if (shape == 3) { a = from_bits<T>(static_cast<typename BitsOf<T>::type>(rng.below(64))), b = from_bits<T>(static_cast<typename BitsOf<T>::type>(rng.below(64))); }
        if (inf_b(a) || inf_b(b) || nan_b(a) || nan_b(b)) { continue; }
        // keep a + b exactly representable in the 64-bit reference
        if (!zero_b(a) && !zero_b(b)) {
            int ea = 0, eb = 0;
            (void)::frexp(static_cast<double>(a), &ea);
            (void)::frexp(static_cast<double>(b), &eb);
            if (ea - eb > spread || eb - ea > spread) { continue; }
        }
        midpoint_fp_case<T>(a, b, true);
        nt += shape <= 3 || mag(a) > L::max() / 2 || mag(b) > L::max() / 2 || mag(a) < L::min() * 2 || mag(b) < L::min() * 2;
    }
    vf::nontrivial_count(nt);
    auto& cl = vf::stats().classes[std::string("midpoint.") + BitsOf<T>::name + ".huge, tiny/denormal, adjacent or small-integer arguments"];
    cl.first += nt;
    cl.second += n;
}

template <typename I>
struct IName;
#define C16_INAME(T, s)                                                                                                 \
    template <>                                                                                                         \
    struct IName<T> {                                                                                                   \
        static constexpr char const* v = s;                                                                             \
    };
C16_INAME(signed char, "i8")
C16_INAME(unsigned char, "u8")
C16_INAME(short, "i16")
C16_INAME(unsigned short, "u16")
C16_INAME(int, "i32")
C16_INAME(unsigned, "u32")
C16_INAME(long long, "i64")
C16_INAME(unsigned long long, "u64")

template <typename I>
auto midpoint_int_case(I a, I b, bool run_mode) -> std::string
{
    Case k{"midpoint", IName<I>::v, 2, static_cast<u64>(a), static_cast<u64>(b), 0};
    vf::Flight<Case> fl("midpoint", k);
    __int128 const A = a, B = b;
    __int128 const R = A + (B - A) / 2; // C++ division truncates towards zero = rounds the midpoint towards a
    I const m        = etl::midpoint(a, b);
    std::string d;
    if (static_cast<__int128>(m) != R) {
        d = std::string("midpoint(") + IName<I>::v + " " + std::to_string(a) + ", " + std::to_string(b) + "): etl " + std::to_string(m) + ", a + (b - a)/2 is "
          + std::to_string(static_cast<long long>(R));
    }
    if (run_mode) {
        vf::eval("midpoint");
        if (!d.empty()) { vf::mismatch("midpoint", k, d); }
    }
    return d;
}

template <typename I>
void run_midpoint_int(vf::Ctx& c, vf::Rng& rng)
{
    using L = std::numeric_limits<I>;
    std::vector<I> edge{L::min(), static_cast<I>(L::min() + 1), static_cast<I>(L::min() + 2), static_cast<I>(L::max() - 2), static_cast<I>(L::max() - 1), L::max(), I(0), I(1), I(2), I(3)};
    if constexpr (L::is_signed) {
        edge.push_back(I(-1));
        edge.push_back(I(-2));
        edge.push_back(I(-3));
    }
    std::uint64_t nt = 0, total = 0;
    if (c.shard == 0) {
        for (I a : edge) {
            for (I b : edge) {
                midpoint_int_case<I>(a, b, true);
                ++nt;
                ++total;
            }
        }
        if constexpr (sizeof(I) == 1) { // exhaustive
            for (int a = L::min(); a <= L::max(); ++a) {
                for (int b = L::min(); b <= L::max(); ++b) {
                    midpoint_int_case<I>(static_cast<I>(a), static_cast<I>(b), true);
                    ++total;
                    nt += (a > b) || ((a ^ b) & 1);
                }
            }
        }
    }
    std::uint64_t const n = (c.thorough() ? 200000ULL : 20000ULL) / static_cast<unsigned>(c.nshards) + 1;
    for (std::uint64_t i = 0; i < n; ++i) {
        I a = static_cast<I>(rng.next()), b = static_cast<I>(rng.next());
        if (rng.below(4) == 0) { a = edge[rng.below(edge.size())]; }
        if (rng.below(4) == 0) { // neighbours of a (computed modulo 2^N: no signed overflow in the harness itself)
            using UI = std::make_unsigned_t<I>;
            b        = static_cast<I>(static_cast<UI>(static_cast<UI>(a) + static_cast<UI>(rng.range(-3, 3))));
        }
        midpoint_int_case<I>(a, b, true);
        ++total;
        nt += (a > b) || ((a ^ b) & 1);
    }
    vf::nontrivial_count(nt);
    auto& cl = vf::stats().classes["midpoint.int.a > b or odd distance (rounding direction matters) or extreme values"];
    cl.first += nt;
    cl.second += total;
}

} // namespace

void vf_run(vf::Ctx& c)
{
    g_measure = std::getenv("C16_MEASURE") != nullptr;
    vf::Rng rng(c.seed);
    run_complex<float>(c, rng);
    run_complex<double>(c, rng);
    run_lerp<float>(c, rng);
    run_lerp<double>(c, rng);
    run_midpoint_fp<float>(c, rng);
    run_midpoint_fp<double>(c, rng);
    run_midpoint_int<signed char>(c, rng);
    run_midpoint_int<unsigned char>(c, rng);
    run_midpoint_int<short>(c, rng);
    run_midpoint_int<unsigned short>(c, rng);
    run_midpoint_int<int>(c, rng);
    run_midpoint_int<unsigned>(c, rng);
    run_midpoint_int<long long>(c, rng);
    run_midpoint_int<unsigned long long>(c, rng);
    vf::sample("complex.sin", [] { return std::string("sin c32 0x3f800000 0xbf000000  (= sin(1 - 0.5i); case = function, type, bit patterns of re and im)"); });
    if (g_measure) {
        for (auto const& [k, n] : g_measure_fails) { std::printf("MEASURE-FAILCOUNT %s : %d\n", k.c_str(), n); }
        for (auto const& [k, m] : maxima()) {
            std::printf("MEASURE-MAX %s n=%llu max_ulp=%.3Lf at %s | max_rel=0 at -\n", k.c_str(), static_cast<unsigned long long>(m.n), m.ulp, m.arg.c_str());
        }
    }
}

std::string vf_replay(std::string const& /*sub*/, std::string const& cs)
{
    auto const p = parse_case(cs);
    if (p.fn == "lerp") {
        float const t1 = u2f(static_cast<u32>(p.c >> 32)), t2 = u2f(static_cast<u32>(p.c));
        if (p.ty == "f32") { return lerp_case<float>(u2f(static_cast<u32>(p.a)), u2f(static_cast<u32>(p.b)), t1, t2, false); }
        return lerp_case<double>(u2d(p.a), u2d(p.b), t1, t2, false);
    }
    if (p.fn == "midpoint") {
        if (p.ty == "f32") { return midpoint_fp_case<float>(u2f(static_cast<u32>(p.a)), u2f(static_cast<u32>(p.b)), false); }
        if (p.ty == "f64") { return midpoint_fp_case<double>(u2d(p.a), u2d(p.b), false); }
        if (p.ty == "i8") { return midpoint_int_case<signed char>(static_cast<signed char>(p.a), static_cast<signed char>(p.b), false); }
        if (p.ty == "u8") { return midpoint_int_case<unsigned char>(static_cast<unsigned char>(p.a), static_cast<unsigned char>(p.b), false); }
        if (p.ty == "i16") { return midpoint_int_case<short>(static_cast<short>(p.a), static_cast<short>(p.b), false); }
        if (p.ty == "u16") { return midpoint_int_case<unsigned short>(static_cast<unsigned short>(p.a), static_cast<unsigned short>(p.b), false); }
        if (p.ty == "i32") { return midpoint_int_case<int>(static_cast<int>(p.a), static_cast<int>(p.b), false); }
        if (p.ty == "u32") { return midpoint_int_case<unsigned>(static_cast<unsigned>(p.a), static_cast<unsigned>(p.b), false); }
        if (p.ty == "i64") { return midpoint_int_case<long long>(static_cast<long long>(p.a), static_cast<long long>(p.b), false); }
        if (p.ty == "u64") { return midpoint_int_case<unsigned long long>(p.a, p.b, false); }
    }
    for (int f = 0; f < F_COUNT; ++f) {
        if (p.fn == k_names[f]) {
            if (p.ty == "c32") { return case_c<float>(f, u2f(static_cast<u32>(p.a)), u2f(static_cast<u32>(p.b)), false); }
            if (p.ty == "c64") { return case_c<double>(f, u2d(p.a), u2d(p.b), false); }
        }
    }
    return "replay: unknown case " + cs;
}
