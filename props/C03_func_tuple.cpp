// C03 — lifetimes of the objects owned by inplace_function<int(int),Cap> (callables with 1, 2, 4 and 8 Tracked captures,
// a function pointer and a captureless lambda; capacities 16 and 32 with the converting copy / move between them),
// pair<Tracked,Tracked> and tuple<Tracked,int,Tracked>.  Oracle: see props/C03_shared.cpp.
// Engines: E1 rapidcheck histories over three objects + E2 all op pairs (thorough: triples) after a fixed prefix.
//
// inplace_function requires copy-constructible callables (static_assert), so its captures are of the copy+move and
// copy-only kinds; an empty inplace_function is never called.  etl::tuple declares its copy and move constructors and
// therefore has no assignment operators on this tree: tuples are handed around with swap, and the "fresh assignment"
// into a moved-from tuple is an element-wise assignment through get<I>.  Not part of the check (does not compile): copy
// operations of pair / tuple with the move-only kind.
#include <etl/functional.hpp>
#include <etl/tuple.hpp>
#include <etl/utility.hpp>

#include "C03_shared.cpp"

namespace {

using namespace c03;

// ================================================================== inplace_function
template <typename T, int NC>
struct Fn {
    T c[NC];
    auto operator()(int x) const -> int
    {
        int s = x;
        for (auto const& e : c) { s += e.get(); }
        return s;
    }
};
inline auto plus100(int x) -> int { return x + 100; }

enum FCode : std::uint32_t {
    F_ASSIGN_CALLABLE_RREF, F_ASSIGN_CALLABLE_CREF, F_CTOR_CALLABLE, F_ASSIGN_NULLPTR, F_CALL, F_COPY_CTOR, F_MOVE_CTOR, F_COPY_ASSIGN, F_MOVE_ASSIGN, F_SELF_COPY_ASSIGN, F_SELF_MOVE_ASSIGN,
    F_SWAP_MEMBER, F_SWAP_FREE, F_SELF_SWAP_MEMBER, F_SELF_SWAP_FREE, F_BIG_CONV_COPY, F_BIG_CONV_MOVE, F_BIG_ASSIGN_COPY, F_BIG_ASSIGN_MOVE, F_BIG_CALLABLE8, F_BIG_SWAP, F_BIG_SELF_SWAP, F_BIG_NULLPTR, F_COMPARE_NULL,
    F_NCODES
};
char const* const fcode_names[] = {"f=callable&&", "f=callable const&", "ctor(callable)", "f=nullptr", "call", "copy-ctor", "move-ctor+refill source", "copy-assign", "move-assign+refill source", "self copy-assign",
    "self move-assign", "swap(member)", "swap(free)", "self swap(member)", "self swap(free)", "big(f) converting copy", "big(move(f)) converting move", "big=f", "big=move(f)", "big=callable with 8 captures",
    "big.swap(big2)", "big self swap", "big=nullptr", "==nullptr"};
static_assert(sizeof(fcode_names) / sizeof(fcode_names[0]) == F_NCODES);

template <typename T>
struct FUN {
    using F = etl::inplace_function<int(int), 4 * sizeof(T)>; // room for 4 captures (16 bytes for the engine's Tracked)
    using G = etl::inplace_function<int(int), 8 * sizeof(T)>; // room for 8 captures

    template <typename Fx>
    static auto snap(Fx const& f) -> std::vector<int>
    {
        if (!static_cast<bool>(f)) { return {}; }
        return {f(0)};
    }
    template <typename Fx>
    static void touch(Fx const& f)
    {
        (void)snap(f);
    }
    // build a callable of shape `shape` (0:1 capture, 1:2, 2:4, 3:function pointer, 4:captureless lambda) and hand it to use(callable, f(0))
    template <typename Use>
    static void with_callable(std::uint32_t shape, int val, Use&& use)
    {
        switch (shape % 5) {
        case 0: use(Fn<T, 1>{{T(val)}}, val); break;
        case 1: use(Fn<T, 2>{{T(val), T(val + 1)}}, 2 * val + 1); break;
        case 2: use(Fn<T, 4>{{T(val), T(val + 1), T(val + 2), T(val + 3)}}, 4 * val + 6); break;
        case 3: use(&plus100, 100); break;
        default: use([](int x) { return x + 7; }, 7); break;
        }
    }
    template <typename Fx>
    static void refill(Fx& x, std::uint32_t raw, int val, Hist& h, char const* who)
    {
        std::vector<int> want;
        if (raw % 6 == 5) {
            x = nullptr;
        } else {
            with_callable(raw % 6, val + 10, [&](auto&& callable, int at0) {
                if ((raw & 8U) != 0) {
                    x = callable; // copy into the by-value parameter
                } else {
                    x = std::move(callable);
                }
                want = {at0};
            });
        }
        auto got = snap(x);
        if (got != want) { h.fail(std::string(who) + " does not read back a fresh assignment: expected f(0) " + show(want) + " got " + show(got)); }
    }

    static auto run(OpsCase const& k, int stats) -> std::string
    {
        lt::reset();
        Hist h;
        {
            F o[3];
            G big[2];
            for (auto const& op : k.ops) {
                auto xi   = op.c % 3;
                auto yi   = (xi + 1 + (op.c / 3) % 2) % 3;
                F& x      = o[xi];
                F& y      = o[yi];
                G& g      = big[(op.c / 8) % 2];
                G& g2     = big[1 - (op.c / 8) % 2];
                int val   = static_cast<int>((op.c >> 4) % 7) + 1;
                auto code = op.code % F_NCODES;
                bool had  = static_cast<bool>(x);
                if (stats > 1) { vf::count((std::string("fun.") + fcode_names[code]).c_str()); }
                switch (code) {
                case F_ASSIGN_CALLABLE_RREF: with_callable(op.a, val, [&](auto&& c, int) { x = std::move(c); }); break;
                case F_ASSIGN_CALLABLE_CREF: {
                    with_callable(op.a, val, [&](auto&& c, int) {
                        auto const& cc = c;
                        x              = cc;
                        h.poll();
                    });
                    break;
                }
                case F_CTOR_CALLABLE: {
                    with_callable(op.a, val, [&](auto&& c, int) {
                        if ((op.b & 1U) != 0) {
                            F f(std::move(c));
                            h.poll();
                            touch(f);
                            y = std::move(f);
                        } else {
                            auto const& cc = c;
                            F f(cc);
                            h.poll();
                            touch(f);
                            y = f;
                        }
                    });
                    break;
                }
                case F_ASSIGN_NULLPTR: x = nullptr; break;
                case F_CALL: {
                    if (had) { (void)x(val); }
                    break;
                }
                case F_COPY_CTOR: {
                    F c(x);
                    h.poll();
                    touch(c);
                    if ((op.b & 1U) != 0) { y = std::move(c); }
                    if ((op.b & 2U) != 0) { refill(x, op.b / 4, val, h, "copied-from source"); }
                    break;
                }
                case F_MOVE_CTOR: {
                    h.moved |= had;
                    F c(std::move(x));
                    h.poll();
                    touch(c);
                    touch(x);
                    refill(x, op.b, val, h, "moved-from source (move construction)");
                    if ((op.c & 128U) != 0) { y = std::move(c); }
                    break;
                }
                case F_COPY_ASSIGN: {
                    y = x;
                    if ((op.b & 2U) != 0) { refill(x, op.b / 4, val, h, "copied-from source"); }
                    break;
                }
                case F_MOVE_ASSIGN: {
                    h.moved |= had;
                    y = std::move(x);
                    touch(x);
                    refill(x, op.b, val, h, "moved-from source (move assignment)");
                    break;
                }
                case F_SELF_COPY_ASSIGN: {
                    auto before = snap(x);
                    F& alias    = x;
                    x           = alias;
                    auto after  = snap(x);
                    if (before != after) { h.fail("self copy-assignment changed the value: f(0) " + show(before) + " -> " + show(after)); }
                    h.selfop |= had;
                    break;
                }
                case F_SELF_MOVE_ASSIGN: { // value unspecified afterwards: validity only
                    F& alias = x;
                    x        = std::move(alias);
                    touch(x);
                    h.selfop |= had;
                    if ((op.b & 1U) != 0) { refill(x, op.b / 2, val, h, "self-move-assigned object"); }
                    break;
                }
                case F_SWAP_MEMBER:
                case F_SWAP_FREE: {
                    h.swapped |= (had && static_cast<bool>(y));
                    h.cross |= (had != static_cast<bool>(y));
                    if (code == F_SWAP_MEMBER) {
                        x.swap(y);
                    } else {
                        using etl::swap;
                        swap(x, y);
                    }
                    break;
                }
                case F_SELF_SWAP_MEMBER:
                case F_SELF_SWAP_FREE: {
                    if (had && vf::ctx().excluded("inplace_function.self_swap")) { // known-finding exclusion: self-swap of a non-empty function
                        vf::excluded_known("inplace_function.self_swap");
                        break;
                    }
                    auto before = snap(x);
                    F& alias    = x;
                    if (code == F_SELF_SWAP_MEMBER) {
                        x.swap(alias);
                    } else {
                        using etl::swap;
                        swap(x, alias);
                    }
                    auto after = snap(x);
                    if (before != after) { h.fail("self-swap changed the value: f(0) " + show(before) + " -> " + show(after)); }
                    h.selfop |= had;
                    break;
                }
                case F_BIG_CONV_COPY: {
                    G c(x);
                    h.poll();
                    touch(c);
                    if ((op.b & 1U) != 0) { g = std::move(c); }
                    break;
                }
                case F_BIG_CONV_MOVE: {
                    h.moved |= had;
                    G c(std::move(x));
                    h.poll();
                    touch(c);
                    touch(x);
                    refill(x, op.b, val, h, "moved-from source (converting move construction)");
                    if ((op.b & 16U) != 0) { g = std::move(c); }
                    break;
                }
                case F_BIG_ASSIGN_COPY: g = x; break;
                case F_BIG_ASSIGN_MOVE: {
                    h.moved |= had;
                    g = std::move(x);
                    touch(x);
                    refill(x, op.b, val, h, "moved-from source (converting move assignment)");
                    break;
                }
                case F_BIG_CALLABLE8: {
                    g = Fn<T, 8>{{T(val), T(val), T(val), T(val), T(val), T(val), T(val), T(val)}};
                    break;
                }
                case F_BIG_SWAP: {
                    h.swapped |= (static_cast<bool>(g) && static_cast<bool>(g2));
                    g.swap(g2);
                    break;
                }
                case F_BIG_SELF_SWAP: {
                    if (static_cast<bool>(g) && vf::ctx().excluded("inplace_function.self_swap")) {
                        vf::excluded_known("inplace_function.self_swap");
                        break;
                    }
                    auto before = snap(g);
                    G& alias    = g;
                    g.swap(alias);
                    auto after = snap(g);
                    if (before != after) { h.fail("self-swap changed the value: f(0) " + show(before) + " -> " + show(after)); }
                    h.selfop |= static_cast<bool>(g);
                    break;
                }
                case F_BIG_NULLPTR: g = nullptr; break;
                case F_COMPARE_NULL: {
                    (void)(x == nullptr);
                    (void)(nullptr != x);
                    break;
                }
                default: break;
                }
                h.cross |= (had != static_cast<bool>(x));
                for (auto const& e : o) { touch(e); }
                for (auto const& e : big) { touch(e); }
                if (!h.step()) {
                    h.err = std::string("after ") + fcode_names[code] + ": " + h.err;
                    break;
                }
            }
        }
        if (h.err.empty()) { h.err = lt::check_empty(); }
        h.labels("inplace_function", stats, k, "cvsf");
        return h.err;
    }
};

// ================================================================== pair<T,T>
enum PCode : std::uint32_t {
    P_ASSIGN_RVALUES, P_CTOR_CREF, P_CTOR_INTS, P_DEFAULT, P_CONV_CTOR_COPY, P_CONV_CTOR_MOVE, P_CONV_ASSIGN_COPY, P_CONV_ASSIGN_MOVE, P_COPY_CTOR, P_MOVE_CTOR, P_COPY_ASSIGN, P_MOVE_ASSIGN, P_SELF_COPY_ASSIGN,
    P_SELF_MOVE_ASSIGN, P_SWAP_MEMBER, P_SWAP_FREE, P_SELF_SWAP_MEMBER, P_SELF_SWAP_FREE, P_MAKE_PAIR, P_GET_WRITE, P_COMPARE,
    P_NCODES
};
char const* const pcode_names[] = {"p=pair(T&&,T&&)", "ctor(T const&,T const&)", "ctor(int,int)", "ctor()", "ctor(pair<int,int> const&)", "ctor(pair<int,int>&&)", "p=pair<int,int> const&", "p=pair<int,int>&&", "copy-ctor",
    "move-ctor+refill source", "copy-assign", "move-assign+refill source", "self copy-assign", "self move-assign", "swap(member)", "swap(free)", "self swap(member)", "self swap(free)", "make_pair", "get<I>(p)=T", "compare"};
static_assert(sizeof(pcode_names) / sizeof(pcode_names[0]) == P_NCODES);

template <typename T>
struct PAIR {
    using V                  = etl::pair<T, T>;
    static constexpr bool CP = std::is_copy_constructible_v<T>;

    static auto snap(V const& p) -> std::vector<int> { return {p.first.get(), p.second.get()}; }
    static void touch(V const& p)
    {
        (void)etl::get<0>(p).get();
        (void)etl::get<1>(p).get();
    }
    static void refill(V& x, std::uint32_t raw, int val, Hist& h, char const* who)
    {
        std::vector<int> want{val + 40, val + 41};
        switch (raw % 4) {
        case 0: x = V(T(want[0]), T(want[1])); break;
        case 1: x = etl::pair<int, int>(want[0], want[1]); break;
        case 2: {
            x.first  = T(want[0]);
            x.second = T(want[1]);
            break;
        }
        default: {
            if constexpr (CP) {
                V fresh(want[0], want[1]);
                x = fresh;
            } else {
                x = etl::make_pair(T(want[0]), T(want[1]));
            }
            break;
        }
        }
        auto got = snap(x);
        if (got != want) { h.fail(std::string(who) + " does not read back a fresh assignment: wrote " + show(want) + " read " + show(got)); }
    }

    static auto run(OpsCase const& k, int stats) -> std::string
    {
        lt::reset();
        Hist h;
        {
            V o[3];
            for (auto const& op : k.ops) {
                auto xi   = op.c % 3;
                auto yi   = (xi + 1 + (op.c / 3) % 2) % 3;
                V& x      = o[xi];
                V& y      = o[yi];
                int val   = static_cast<int>((op.c >> 3) % 7) + 1;
                auto code = op.code % P_NCODES;
                if constexpr (!CP) {
                    switch (code) {
                    case P_CTOR_CREF: code = P_ASSIGN_RVALUES; break;
                    case P_COPY_CTOR: code = P_MOVE_CTOR; break;
                    case P_COPY_ASSIGN: code = P_MOVE_ASSIGN; break;
                    case P_SELF_COPY_ASSIGN: code = P_SELF_MOVE_ASSIGN; break;
                    default: break;
                    }
                }
                if (stats > 1) { vf::count((std::string("pair.") + pcode_names[code]).c_str()); }
                switch (code) {
                case P_ASSIGN_RVALUES: x = V(T(val), T(val + 1)); break;
                case P_CTOR_CREF: {
                    if constexpr (CP) {
                        T const a(val);
                        T const b(val + 1);
                        V c(a, b);
                        h.poll();
                        touch(c);
                        y = std::move(c);
                    }
                    break;
                }
                case P_CTOR_INTS: {
                    V c(val, val + 1);
                    h.poll();
                    touch(c);
                    y = std::move(c);
                    break;
                }
                case P_DEFAULT: {
                    V c;
                    h.poll();
                    touch(c);
                    y = std::move(c);
                    break;
                }
                case P_CONV_CTOR_COPY:
                case P_CONV_CTOR_MOVE: {
                    etl::pair<int, int> src(val, val + 1);
                    if (code == P_CONV_CTOR_COPY) {
                        V c(src);
                        h.poll();
                        touch(c);
                        y = std::move(c);
                    } else {
                        V c(std::move(src));
                        h.poll();
                        touch(c);
                        y = std::move(c);
                    }
                    break;
                }
                case P_CONV_ASSIGN_COPY:
                case P_CONV_ASSIGN_MOVE: {
                    etl::pair<int, int> src(val, val + 1);
                    if (code == P_CONV_ASSIGN_COPY) {
                        x = src;
                    } else {
                        x = std::move(src);
                    }
                    break;
                }
                case P_COPY_CTOR: {
                    if constexpr (CP) {
                        V c(x);
                        h.poll();
                        touch(c);
                        c.first = T(99);
                        if ((op.b & 1U) != 0) { y = std::move(c); }
                        if ((op.b & 2U) != 0) { refill(x, op.b / 4, val, h, "copied-from source"); }
                    }
                    break;
                }
                case P_MOVE_CTOR: {
                    h.moved = true;
                    V c(std::move(x));
                    h.poll();
                    touch(c);
                    touch(x);
                    refill(x, op.b, val, h, "moved-from source (move construction)");
                    if ((op.c & 64U) != 0) { y = std::move(c); }
                    break;
                }
                case P_COPY_ASSIGN: {
                    if constexpr (CP) {
                        y = x;
                        if ((op.b & 2U) != 0) { refill(x, op.b / 4, val, h, "copied-from source"); }
                    }
                    break;
                }
                case P_MOVE_ASSIGN: {
                    h.moved = true;
                    y       = std::move(x);
                    touch(x);
                    refill(x, op.b, val, h, "moved-from source (move assignment)");
                    break;
                }
                case P_SELF_COPY_ASSIGN: {
                    if constexpr (CP) {
                        auto before = snap(x);
                        V& alias    = x;
                        x           = alias;
                        auto after  = snap(x);
                        if (before != after) { h.fail("self copy-assignment changed the value: " + show(before) + " -> " + show(after)); }
                        h.selfop = true;
                    }
                    break;
                }
                case P_SELF_MOVE_ASSIGN: { // value unspecified afterwards: validity only
                    V& alias = x;
                    x        = std::move(alias);
                    touch(x);
                    h.selfop = true;
                    if ((op.b & 1U) != 0) { refill(x, op.b / 2, val, h, "self-move-assigned object"); }
                    break;
                }
                case P_SWAP_MEMBER:
                case P_SWAP_FREE: {
                    h.swapped = true;
                    if (code == P_SWAP_MEMBER) {
                        x.swap(y);
                    } else {
                        using etl::swap;
                        swap(x, y);
                    }
                    break;
                }
                case P_SELF_SWAP_MEMBER:
                case P_SELF_SWAP_FREE: {
                    auto before = snap(x);
                    V& alias    = x;
                    if (code == P_SELF_SWAP_MEMBER) {
                        x.swap(alias);
                    } else {
                        using etl::swap;
                        swap(x, alias);
                    }
                    auto after = snap(x);
                    if (before != after) { h.fail("self-swap changed the value: " + show(before) + " -> " + show(after)); }
                    h.selfop = true;
                    break;
                }
                case P_MAKE_PAIR: {
                    auto c = etl::make_pair(T(val), T(val + 1));
                    h.poll();
                    touch(c);
                    y = std::move(c);
                    break;
                }
                case P_GET_WRITE: {
                    if ((op.b & 1U) != 0) {
                        etl::get<0>(x) = T(val);
                    } else {
                        etl::get<1>(x) = T(val);
                    }
                    break;
                }
                case P_COMPARE: {
                    V const& cx = x;
                    V const& cy = y;
                    (void)(cx == cy);
                    (void)(cx < cy);
                    (void)(cx <= cy);
                    (void)(cx > cy);
                    (void)(cx >= cy);
                    break;
                }
                default: break;
                }
                for (auto const& e : o) { touch(e); }
                if (!h.step()) {
                    h.err = std::string("after ") + pcode_names[code] + ": " + h.err;
                    break;
                }
            }
        }
        if (h.err.empty()) { h.err = lt::check_empty(); }
        h.labels("pair", stats, k, "vsf");
        return h.err;
    }
};

// ================================================================== tuple<T,int,T>
enum TCode : std::uint32_t { T_CTOR_RVALUES, T_CTOR_CREF, T_CTOR_INTS, T_DEFAULT, T_COPY_CTOR, T_MOVE_CTOR, T_SWAP, T_SELF_SWAP, T_GET_WRITE, T_COMPARE, T_ASSIGN_IF_ANY, T_NCODES };
char const* const tcode_names[] = {"ctor(T&&,int,T&&)", "ctor(T const&,int const&,T const&)", "ctor(int,int,int)", "ctor()", "copy-ctor", "move-ctor+refill source", "swap", "self swap", "get<I>(t)=T", "==",
    "assignment (only if the tree declares one)"};
static_assert(sizeof(tcode_names) / sizeof(tcode_names[0]) == T_NCODES);

template <typename T>
struct TUP {
    using V                  = etl::tuple<T, int, T>;
    static constexpr bool CP = std::is_copy_constructible_v<T>;

    static auto snap(V const& t) -> std::vector<int> { return {etl::get<0>(t).get(), etl::get<1>(t), etl::get<2>(t).get()}; }
    static void touch(V const& t) { (void)snap(t); }

    static auto run(OpsCase const& k, int stats) -> std::string
    {
        lt::reset();
        Hist h;
        {
            V o[3];
            for (auto const& op : k.ops) {
                auto xi   = op.c % 3;
                auto yi   = (xi + 1 + (op.c / 3) % 2) % 3;
                V& x      = o[xi];
                V& y      = o[yi];
                int val   = static_cast<int>((op.c >> 3) % 7) + 1;
                auto code = op.code % T_NCODES;
                if constexpr (!CP) {
                    if (code == T_CTOR_CREF) { code = T_CTOR_RVALUES; }
                    if (code == T_COPY_CTOR) { code = T_MOVE_CTOR; }
                }
                if (stats > 1) { vf::count((std::string("tuple.") + tcode_names[code]).c_str()); }
                switch (code) {
                case T_CTOR_RVALUES: {
                    V c(T(val), val + 1, T(val + 2));
                    h.poll();
                    touch(c);
                    y.swap(c);
                    break;
                }
                case T_CTOR_CREF: {
                    if constexpr (CP) {
                        T const a(val);
                        int const i = val + 1;
                        T const b(val + 2);
                        V c(a, i, b);
                        h.poll();
                        touch(c);
                        y.swap(c);
                    }
                    break;
                }
                case T_CTOR_INTS: {
                    V c(val, val + 1, val + 2);
                    h.poll();
                    touch(c);
                    y.swap(c);
                    break;
                }
                case T_DEFAULT: {
                    V c;
                    h.poll();
                    touch(c);
                    y.swap(c);
                    break;
                }
                case T_COPY_CTOR: {
                    if constexpr (CP) {
                        V c(x);
                        h.poll();
                        touch(c);
                        etl::get<0>(c) = T(99);
                        if ((op.b & 1U) != 0) { y.swap(c); }
                    }
                    break;
                }
                case T_MOVE_CTOR: {
                    h.moved = true;
                    V c(std::move(x));
                    h.poll();
                    touch(c);
                    touch(x);
                    // fresh (element-wise) assignment into the moved-from tuple, read back
                    std::vector<int> want{val + 40, val + 41, val + 42};
                    etl::get<0>(x) = T(want[0]);
                    etl::get<1>(x) = want[1];
                    etl::get<2>(x) = T(want[2]);
                    auto got       = snap(x);
                    if (got != want) { h.fail("moved-from source does not read back a fresh assignment: wrote " + show(want) + " read " + show(got)); }
                    if ((op.c & 64U) != 0) { y.swap(c); }
                    break;
                }
                case T_SWAP: {
                    h.swapped = true;
                    x.swap(y);
                    break;
                }
                case T_SELF_SWAP: {
                    auto before = snap(x);
                    V& alias    = x;
                    x.swap(alias);
                    auto after = snap(x);
                    if (before != after) { h.fail("self-swap changed the value: " + show(before) + " -> " + show(after)); }
                    h.selfop = true;
                    break;
                }
                case T_GET_WRITE: {
                    if ((op.b & 1U) != 0) {
                        etl::get<0>(x) = T(val);
                    } else {
                        etl::get<2>(x) = T(val);
                    }
                    break;
                }
                case T_COMPARE: {
                    V const& cx = x;
                    V const& cy = y;
                    (void)(cx == cy);
                    break;
                }
                case T_ASSIGN_IF_ANY: {
                    if constexpr (std::is_move_assignable_v<V>) {
                        h.moved = true;
                        y       = std::move(x);
                        touch(x);
                        x = V(T(val), val, T(val));
                    }
                    if constexpr (CP && std::is_copy_assignable_v<V>) {
                        auto before = snap(x);
                        V& alias    = x;
                        x           = alias;
                        if (before != snap(x)) { h.fail("self copy-assignment changed the value"); }
                    }
                    break;
                }
                default: break;
                }
                for (auto const& e : o) { touch(e); }
                if (!h.step()) {
                    h.err = std::string("after ") + tcode_names[code] + ": " + h.err;
                    break;
                }
            }
        }
        if (h.err.empty()) { h.err = lt::check_empty(); }
        h.labels("tuple", stats, k, "vsf");
        return h.err;
    }
};

void init_configs()
{
    configs() = {
        Config{"inplace_function<int(int),16|32>/TCM captures", &FUN<lt::TCM>::run, F_NCODES, fcode_names, true},
        Config{"inplace_function<int(int),16|32>/TCO captures", &FUN<lt::TCO>::run, F_NCODES, fcode_names, true},
        Config{"pair<TCM,TCM>", &PAIR<lt::TCM>::run, P_NCODES, pcode_names, true},
        Config{"pair<TMO,TMO>", &PAIR<lt::TMO>::run, P_NCODES, pcode_names, true},
        Config{"pair<TCO,TCO>", &PAIR<lt::TCO>::run, P_NCODES, pcode_names, true},
        Config{"tuple<TCM,int,TCM>", &TUP<lt::TCM>::run, T_NCODES, tcode_names, true},
        Config{"tuple<TMO,int,TMO>", &TUP<lt::TMO>::run, T_NCODES, tcode_names, true},
        Config{"tuple<TCO,int,TCO>", &TUP<lt::TCO>::run, T_NCODES, tcode_names, true},
        // shapes (see C03_shared.cpp): NC copy may throw, NM move may throw, AO overloaded unary operator&
        Config{"inplace_function<int(int),16|32>/NC captures", &FUN<NC<0>>::run, F_NCODES, fcode_names, false},
        Config{"inplace_function<int(int),16|32>/NM captures", &FUN<NM<0>>::run, F_NCODES, fcode_names, false},
        Config{"inplace_function<int(int),16|32>/AO captures", &FUN<AO<0>>::run, F_NCODES, fcode_names, false},
        Config{"pair<NC,NC>", &PAIR<NC<0>>::run, P_NCODES, pcode_names, false},
        Config{"pair<NM,NM>", &PAIR<NM<0>>::run, P_NCODES, pcode_names, false},
        Config{"pair<AO,AO>", &PAIR<AO<0>>::run, P_NCODES, pcode_names, false},
        Config{"tuple<NC,int,NC>", &TUP<NC<0>>::run, T_NCODES, tcode_names, false},
        Config{"tuple<NM,int,NM>", &TUP<NM<0>>::run, T_NCODES, tcode_names, false},
        Config{"tuple<AO,int,AO>", &TUP<AO<0>>::run, T_NCODES, tcode_names, false},
    };
}

} // namespace

void vf_run(vf::Ctx& c)
{
    init_configs();
    // three objects: x = c%3, y = (x+1+(c/3)%2)%3.  Prefix: give objects 0 and 1 a value (code 0 stores a fresh value for all
    // three owners; for inplace_function: 2 and 4 captures), object 2 stays empty / default; shapes: (x=2,y=0), (x=0,y=1), (x=1,y=0)
    c03::run_pairs(c, {RawOp{0, 1, 0, 9}, RawOp{0, 2, 0, 16}}, {RawOp{0, 0, 1, 2}, RawOp{0, 1, 0x1F, 72}, RawOp{0, 2, 0x2E, 22}});
    c03::run_histories(c, 4000, 60000, 30);
}

std::string vf_replay(std::string const&, std::string const& cs)
{
    init_configs();
    return c03::replay_history(cs);
}
