// C04 — constructors, operator= forms, assign forms (included by props/C04_strings.cpp).
// Every constructor builds a temporary, compares it with the std model and then stores it in the target string.
// Only calls whose result fits the capacity are generated (all of these have TETL_PRECONDITION(len <= Capacity)), and
// positions into a source are <= its size (std throws beyond that).
#pragma once

namespace c04 {

template <typename Char, std::size_t N, typename Tr>
auto Run<Char, N, Tr>::do_construct(std::uint32_t code) -> void
{
    auto const n = fitlen(op.a, N);
    bool alias   = (op.b % 5) == 0; // the source string is the target itself
    E const& srcE = alias ? *x : *y;
    M const srcM  = alias ? *mx : *my; // a copy: the model must not alias either
    switch (code) {
    case CTOR_DEFAULT: {
        E t;
        adopt("string()", t, M(), *x, *mx);
        break;
    }
    case CTOR_PTR_N: {
        auto s = srcn(op.b, n);
        auto b = pbuf(s);
        E t(b.get(), b.n);
        adopt("string(p,n)", t, s, *x, *mx);
        break;
    }
    case CTOR_CSTR: {
        auto s = no_nul(srcn(op.b, n));
        auto b = cbuf(s);
        E t(b.get());
        adopt("string(cstr)", t, s, *x, *mx);
        break;
    }
    case CTOR_N_CH: {
        E t(n, ch);
        adopt("string(n,ch)", t, M(n, ch), *x, *mx);
        break;
    }
    case CTOR_RANGE: {
        // (first,last) delegates to (const_pointer,len): only pointer iterators compile on this tree
        auto s = srcn(op.b, n);
        auto b = pbuf(s);
        E t(b.get(), b.end());
        adopt("string(first,last)", t, s, *x, *mx);
        break;
    }
    case CTOR_STR_POS_N: {
        auto pos = vpos(op.a, srcM.size());
        auto cnt = qc(op.b / 5, srcM.size() - pos, pos);
        E t(srcE, pos, cnt);
        adopt("string(str,pos,n)", t, M(srcM, pos, cnt), *x, *mx);
        break;
    }
    case CTOR_STR_POS: {
        auto pos = vpos(op.a, srcM.size());
        E t(srcE, pos);
        adopt("string(str,pos)", t, M(srcM, pos), *x, *mx);
        break;
    }
    case CTOR_VIEW: {
        auto s = srcn(op.b, n);
        auto b = pbuf(s);
        E t(SV(b.get(), b.n));
        adopt("string(view)", t, M(SSV(s)), *x, *mx);
        break;
    }
    case CTOR_VIEW_POS_N: {
        auto s   = srcn(op.b, n);
        auto b   = pbuf(s);
        auto pos = vpos(op.b / 4, s.size());
        auto cnt = qc(op.c >> 4, s.size() - pos, pos);
        E t(SV(b.get(), b.n), pos, cnt);
        adopt("string(view,pos,n)", t, M(SSV(s), pos, cnt), *x, *mx);
        break;
    }
    case COPY_CTOR_MUTATE: {
        E c(*x);
        M mc(*mx);
        if (auto d = check("copy", c, mc, true); !d.empty()) { fail("copy constructor: " + d); }
        if (!mc.empty()) {
            c[0]  = ch;
            mc[0] = ch;
            c.pop_back();
            mc.pop_back();
        }
        if (mc.size() < N) {
            c.push_back(ch);
            mc.push_back(ch);
        }
        if (auto d = check("mutated copy", c, mc, true); !d.empty()) { fail(d); }
        if (auto d = check("source after mutating its copy", *x, *mx, false); !d.empty()) { fail(d); }
        break;
    }
    case MOVE_CTOR: {
        E c(std::move(*x));
        if (auto d = check("move-constructed", c, *mx, true); !d.empty()) { fail("move constructor: " + d); }
        *x = c; // the moved-from value is unspecified for std: it is only re-assigned
        break;
    }
    case COPY_ASSIGN: {
        E& r = (*y = *x);
        self(r, *y);
        *my = *mx;
        break;
    }
    case MOVE_ASSIGN: {
        E& r = (*y = std::move(*x));
        self(r, *y);
        *my = *mx;
        *x  = *y; // moved-from: re-assigned, never read
        break;
    }
    case SELF_ASSIGN: {
        E& al = *x;
        E& r  = (*x = al);
        self(r, *x);
        break;
    }
    case OPEQ_CSTR: {
        auto s = no_nul(srcn(op.b, n));
        auto b = cbuf(s);
        E& r   = (*x = b.get());
        self(r, *x);
        *mx = s;
        break;
    }
    case OPEQ_CH: {
        if constexpr (N >= 1) {
            E& r = (*x = ch);
            self(r, *x);
            *mx = ch;
        }
        break;
    }
    case OPEQ_VIEW: {
        auto s = srcn(op.b, n);
        auto b = pbuf(s);
        E& r   = (*x = SV(b.get(), b.n));
        self(r, *x);
        *mx = SSV(s);
        break;
    }
    case ASSIGN_N_CH: {
        self(x->assign(n, ch), *x);
        mx->assign(n, ch);
        break;
    }
    case ASSIGN_STR: {
        self(x->assign(srcE), *x);
        mx->assign(srcM);
        break;
    }
    case ASSIGN_STR_POS_N: {
        auto pos = vpos(op.a, srcM.size());
        auto cnt = qc(op.b / 5, srcM.size() - pos, pos);
        self(x->assign(srcE, pos, cnt), *x);
        mx->assign(srcM, pos, cnt);
        break;
    }
    case ASSIGN_STR_POS: {
        auto pos = vpos(op.a, srcM.size());
        self(x->assign(srcE, pos), *x);
        mx->assign(srcM, pos);
        break;
    }
    case ASSIGN_PTR_N: {
        auto s = srcn(op.b, n);
        auto b = pbuf(s);
        self(x->assign(b.get(), b.n), *x);
        mx->assign(s.data(), s.size());
        break;
    }
    case ASSIGN_CSTR: {
        auto s = no_nul(srcn(op.b, n));
        auto b = cbuf(s);
        self(x->assign(b.get()), *x);
        mx->assign(s.c_str());
        break;
    }
    case ASSIGN_RANGE: {
        auto s = srcn(op.b, n);
        auto b = pbuf(s);
        self(x->assign(b.get(), b.end()), *x);
        mx->assign(s.begin(), s.end());
        break;
    }
    case ASSIGN_VIEW: {
        auto s = srcn(op.b, n);
        auto b = pbuf(s);
        self(x->assign(SV(b.get(), b.n)), *x);
        mx->assign(SSV(s));
        break;
    }
    case ASSIGN_VIEW_POS_N: {
        auto s   = srcn(op.b, n);
        auto b   = pbuf(s);
        auto pos = vpos(op.b / 4, s.size());
        auto cnt = qc(op.c >> 4, s.size() - pos, pos);
        self(x->assign(SV(b.get(), b.n), pos, cnt), *x);
        mx->assign(SSV(s), pos, cnt);
        break;
    }
    case ASSIGN_VIEW_POS: {
        auto s   = srcn(op.b, n);
        auto b   = pbuf(s);
        auto pos = vpos(op.b / 4, s.size());
        self(x->assign(SV(b.get(), b.n), pos), *x);
        mx->assign(SSV(s), pos);
        break;
    }
    default: break;
    }
}

} // namespace c04
