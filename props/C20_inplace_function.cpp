// C20 (part 4 of 4) — etl::inplace_function<int(int), Cap> against std::function<int(int)> in lock-step.
//
// Engine E1 (rapidcheck histories with the engine's delete-ops / shrink-arguments shrinker) + E2 (all histories of
// depth 3, thorough 4, over a concrete alphabet for the Cap=8 configuration).
//
// A case = configuration (Cap, small Cap) + <= 30 raw ops on three wrappers: A, B (capacity Cap) and C (smaller
// capacity, source of the converting copy / move constructors).  Ops: assign a callable (rvalue / lvalue / via a
// temporary wrapper; every size 1..Cap for Cap <= 16, a boundary set for 32 and 64; trivially copyable and
// non-trivially copyable + lifetime-tracked callables), copy / move assignment, copy / move construction, assign
// nullptr, member and free swap (entered with the stack shifted by op-dependent multiples of 32 bytes), self swap, self
// copy-assignment, converting copy / move from the smaller wrapper,
// default / nullptr construction, call through a non-const and a const wrapper.
//
// Three further configurations use an explicit Alignment template argument (32, 64, 128) and targets declared
// alignas(32/64/128), trivially and non-trivially copyable: every constructor (value, copy, move) and every invocation
// of such a target checks its own address against alignof(T) ("constructed or invoked at a misaligned address").
//
// Oracle after EVERY op, for every wrapper whose state the model specifies:
//   * emptiness: operator bool, == nullptr, != nullptr (both argument orders) equal the std::function model;
//   * a call enters the target exactly once (call log grows by exactly one entry), the target receives the same
//     argument, the wrapper returns exactly what the target returned, and that equals what the model's target returns
//     (targets are stateful — every call advances a state byte — so a copy that shares or loses state, a swap that
//     mixes targets or a relocation that drops bytes changes a later result; bytes 1..N-1 of a callable carry a pattern
//     that the callable verifies on every call);
//   * no op other than a call enters a target; an EMPTY wrapper is never called (that would be a contract violation
//     of the generator, not of the library): its emptiness is observed only through operator bool / nullptr compare;
//   * lifetime registry of the non-trivial callables: constructed once, destroyed once, never invoked / copied from
//     dead storage; registry empty after all wrappers died; canaries between the wrappers intact.
// At the end of a history every specified non-empty wrapper is called once more.
//
// Masked (std leaves it unspecified): the state of a moved-from wrapper.  It only receives assignments (nullptr or a
// callable) or is destroyed — it "must accept a fresh assignment and destroy cleanly"; ops that would read it are
// re-mapped to such an assignment.
//
// Non-trivial history (NT): both the source and the target are called after a copy, or the target is called after a
// move, before either is re-assigned.
#include <etl/functional.hpp>

#include "rc.hpp"

#include "tracked.hpp"

#include <functional>
#include <utility>

namespace {

using vf::OpsCase;
using vf::RawOp;
namespace lt = vf::lt;

// ------------------------------------------------------------------ instrumented callables
struct CallRec {
    int arg;
    int result;
};
std::vector<CallRec> g_calls;

constexpr auto next_state(unsigned char st) -> unsigned char { return static_cast<unsigned char>(st * 5U + 3U); }

// the model's target: same state machine, no instrumentation
struct MFn {
    unsigned char st;
    auto operator()(int x) -> int
    {
        st = next_state(st);
        return static_cast<int>(st) * 1000 + x;
    }
};

template <std::size_t N>
struct Bytes {
    unsigned char b[N];
    void init(unsigned char st)
    {
        b[0] = st;
        for (std::size_t i = 1; i < N; ++i) { b[i] = static_cast<unsigned char>(st + 31U * i); }
    }
    [[nodiscard]] auto intact() const -> bool
    {
        for (std::size_t i = 2; i < N; ++i) {
            if (static_cast<unsigned char>(b[i] - b[1]) != static_cast<unsigned char>(31U * (i - 1))) { return false; }
        }
        return true;
    }
    auto call(int x) -> int
    {
        bool ok = intact();
        b[0]    = next_state(b[0]);
        int r   = ok ? static_cast<int>(b[0]) * 1000 + x : -1; // -1 never equals a model result
        g_calls.push_back(CallRec{x, r});
        return r;
    }
};

// trivially copyable callable of size N
template <std::size_t N>
struct FnT {
    Bytes<N> d;
    auto operator()(int x) -> int { return d.call(x); }
};
static_assert(sizeof(FnT<1>) == 1 && sizeof(FnT<7>) == 7 && std::is_trivially_copyable_v<FnT<7>>);

// non-trivially copyable, lifetime-tracked callable of size N
template <std::size_t N>
struct FnN {
    Bytes<N> d;
    explicit FnN(unsigned char st) noexcept
    {
        d.init(st);
        lt::on_construct(this);
    }
    FnN(FnN const& o) noexcept : d(o.d)
    {
        lt::need_live(&o, "callable copy constructor reads a source that is not a live object");
        lt::on_construct(this);
        ++lt::reg().copies;
    }
    FnN(FnN&& o) noexcept : d(o.d)
    {
        lt::need_live(&o, "callable move constructor reads a source that is not a live object");
        lt::on_construct(this);
        lt::mark_moved(&o);
        o.d.b[0] = static_cast<unsigned char>(o.d.b[0] ^ 0x5AU); // a moved-from target is not an equivalent target
        ++lt::reg().moves;
    }
    auto operator=(FnN const&) -> FnN& = delete;
    ~FnN() noexcept { lt::on_destroy(this); }
    auto operator()(int x) -> int
    {
        lt::need_live(this, "target invoked on storage that holds no live callable");
        return d.call(x);
    }
};
static_assert(sizeof(FnN<1>) == 1 && sizeof(FnN<9>) == 9 && !std::is_trivially_copyable_v<FnN<9>>);

// ---- over-aligned callables for inplace_function<Sig, Cap, Alignment> with an explicit Alignment.  Every constructor
// (value, copy, move) and every invocation checks `this` against alignof(T); a violation is latched and reported by
// the harness as a failure of the in-flight case (no address ever reaches a detail string).  UBSan's alignment check
// may abort first: every case runs inside a vf::Flight, so the abort is attributed to the case as well.
bool g_misaligned = false;
inline void check_aligned(void const* p, std::size_t a)
{
    if (reinterpret_cast<std::uintptr_t>(p) % a != 0) { g_misaligned = true; }
}
template <std::size_t N, std::size_t A>
struct alignas(A) FnAT { // trivially copyable, over-aligned: checked on every call
    Bytes<N> d;
    auto operator()(int x) -> int
    {
        check_aligned(this, A);
        return d.call(x);
    }
};
template <std::size_t N, std::size_t A>
struct alignas(A) FnAN { // non-trivially copyable, lifetime tracked, over-aligned
    Bytes<N> d;
    explicit FnAN(unsigned char st) noexcept
    {
        check_aligned(this, A);
        d.init(st);
        lt::on_construct(this);
    }
    FnAN(FnAN const& o) noexcept : d(o.d)
    {
        check_aligned(this, A);
        lt::need_live(&o, "callable copy constructor reads a source that is not a live object");
        lt::on_construct(this);
        ++lt::reg().copies;
    }
    FnAN(FnAN&& o) noexcept : d(o.d)
    {
        check_aligned(this, A);
        lt::need_live(&o, "callable move constructor reads a source that is not a live object");
        lt::on_construct(this);
        lt::mark_moved(&o);
        o.d.b[0] = static_cast<unsigned char>(o.d.b[0] ^ 0x5AU);
        ++lt::reg().moves;
    }
    auto operator=(FnAN const&) -> FnAN& = delete;
    ~FnAN() noexcept { lt::on_destroy(this); }
    auto operator()(int x) -> int
    {
        check_aligned(this, A);
        lt::need_live(this, "target invoked on storage that holds no live callable");
        return d.call(x);
    }
};
static_assert(alignof(FnAT<1, 64>) == 64 && sizeof(FnAT<65, 64>) == 128 && alignof(FnAN<33, 32>) == 32 && sizeof(FnAN<33, 32>) == 64);

template <std::size_t N, bool Tracked, std::size_t A>
using Callable = std::conditional_t<(A <= 1), std::conditional_t<Tracked, FnN<N>, FnT<N>>, std::conditional_t<Tracked, FnAN<N, (A <= 1 ? 2 : A)>, FnAT<N, (A <= 1 ? 2 : A)>>>;

// ------------------------------------------------------------------ configuration
template <std::size_t... Ns>
struct Sizes { };

enum Code : std::uint32_t {
    ASSIGN_RVALUE, ASSIGN_LVALUE, ASSIGN_VIA_TEMP, COPY_ASSIGN, MOVE_ASSIGN, COPY_CTOR, MOVE_CTOR, ASSIGN_NULLPTR, SWAP_MEMBER, SWAP_FREE, CALL, CALL_CONST, SELF_SWAP,
    SELF_COPY_ASSIGN, SMALL_ASSIGN, CONVERT_COPY, CONVERT_MOVE, CTOR_EMPTY, SMALL_NULLPTR, SMALL_CALL,
    NCODES,
    NRAW = NCODES + 6 // raw code space: the 6 extra codes are additional calls (CALL x3, CALL_CONST x2, SMALL_CALL)
};
char const* const code_names[] = {"x=callable&&", "x=callable&", "tmp{callable};x=move(tmp)", "y=x", "y=move(x)", "t{x};call both;y=move(t)", "t{move(x)};x|y=move(t)", "x=nullptr", "x.swap(y)", "swap(x,y)", "x(arg)",
    "const x(arg)", "x.swap(x)", "x=x", "C=callable", "x=IF(C)", "x=IF(move(C))", "IF t;IF u{nullptr};y=t|u", "C=nullptr", "C(arg)"};

using Model = std::function<int(int)>;

struct WState {
    Model m;
    bool unspec{false}; // moved-from: std leaves the state unspecified
};

template <typename W>
auto emptiness(char const* name, W const& w, Model const& m) -> std::string
{
    bool e = !static_cast<bool>(m);
    if (static_cast<bool>(w) == e) { return std::string(name) + ": operator bool is " + (e ? "true" : "false") + ", the model is " + (e ? "empty" : "non-empty"); }
    if ((w == nullptr) != e || (nullptr == w) != e) { return std::string(name) + ": == nullptr disagrees with the model (" + (e ? "empty" : "non-empty") + ")"; }
    if ((w != nullptr) == e || (nullptr != w) == e) { return std::string(name) + ": != nullptr disagrees with the model (" + (e ? "empty" : "non-empty") + ")"; }
    return "";
}

// one call of a non-empty wrapper: exactly one target entry, same argument, result unchanged, equals the model
template <typename W>
auto do_call(char const* name, W& w, Model& m, int arg, bool through_const) -> std::string
{
    auto before = g_calls.size();
    int r       = through_const ? std::as_const(w)(arg) : w(arg);
    int mr      = m(arg);
    if (g_calls.size() != before + 1) { return std::string(name) + ": one call entered the target " + std::to_string(g_calls.size() - before) + " times"; }
    if (g_calls.back().arg != arg) { return std::string(name) + ": target received argument " + std::to_string(g_calls.back().arg) + ", caller passed " + std::to_string(arg); }
    if (g_calls.back().result != r) { return std::string(name) + ": wrapper returned " + std::to_string(r) + ", its target returned " + std::to_string(g_calls.back().result); }
    if (r != mr) { return std::string(name) + ": call(" + std::to_string(arg) + ") returned " + std::to_string(r) + ", std::function model returned " + std::to_string(mr) + (r == -1 ? " (-1: the callable's bytes are corrupted)" : ""); }
    return "";
}

template <typename W, std::size_t N, bool Tracked, std::size_t A = 1>
void assign_callable(W& w, unsigned char st, int how)
{
    using F = Callable<N, Tracked, A>;
    auto make = [&]() -> F {
        if constexpr (Tracked) {
            return F(st);
        } else {
            F f;
            f.d.init(st);
            return f;
        }
    };
    switch (how) {
    case 0: w = make(); break;
    case 1: {
        F f = make();
        w   = f;
        break;
    }
    default: {
        if ((st & 1U) != 0) {
            W tmp{make()};
            w = std::move(tmp);
        } else {
            F f = make();
            W tmp{f};
            w = std::move(tmp);
        }
        break;
    }
    }
}

constexpr auto round_up(std::size_t n, std::size_t a) -> std::size_t { return (n + a - 1) / a * a; }

// swap with the stack pointer shifted by a multiple of 32 bytes first: temporaries inside swap() then land on
// different addresses modulo 64 / 128 / 256 from one call to the next
template <typename W>
[[gnu::noinline]] void swap_shifted(W& x, W& y, unsigned shift, bool free_function)
{
    auto* pad = static_cast<unsigned char volatile*>(__builtin_alloca(32U * (shift % 8U) + 32U));
    pad[0]    = 1;
    if (free_function) {
        using etl::swap;
        swap(x, y);
    } else {
        x.swap(y);
    }
    pad[1] = pad[0];
}

// Align == 0: default alignment, callables of sizes Ns with alignment 1.
// Align  > 0: inplace_function<int(int), Cap, Align>; additionally callables declared alignas(Align) with payload sizes As
//             (object size = As rounded up to Align).  The small wrapper keeps its default alignment.
template <std::size_t Cap, std::size_t SCap, typename SizeList, std::size_t Align = 0, typename AlignedSizeList = Sizes<>>
struct Cfg;

template <std::size_t Cap, std::size_t SCap, std::size_t... Ns, std::size_t Align, std::size_t... As>
struct Cfg<Cap, SCap, Sizes<Ns...>, Align, Sizes<As...>> {
    static constexpr std::size_t align_or_1 = Align == 0 ? 1 : Align;
    using IF  = std::conditional_t<Align == 0, etl::inplace_function<int(int), Cap>, etl::inplace_function<int(int), Cap, align_or_1>>;
    using IFS = etl::inplace_function<int(int), SCap>;
    static_assert(((Ns <= Cap) && ...));
    static_assert(((round_up(As, align_or_1) <= Cap) && ...));
    static_assert(Align != 0 || sizeof...(As) == 0);
    static_assert(IF::capacity::value == Cap && IFS::capacity::value == SCap);
    static_assert(Align == 0 || (IF::alignment::value == Align && alignof(IF) >= Align));

    using AssignBig   = void (*)(IF&, unsigned char, int);
    using AssignSmall = void (*)(IFS&, unsigned char, int);
    static constexpr std::size_t sizes[]   = {Ns..., round_up(As, align_or_1)...};
    static constexpr std::size_t nsizes    = sizeof...(Ns) + sizeof...(As);
    static constexpr std::size_t nplain    = sizeof...(Ns);
    static constexpr AssignBig big_t[]     = {&assign_callable<IF, Ns, false>..., &assign_callable<IF, As, false, align_or_1>...};
    static constexpr AssignBig big_n[]     = {&assign_callable<IF, Ns, true>..., &assign_callable<IF, As, true, align_or_1>...};
    // for the small wrapper sizes above SCap are replaced by SCap and over-aligned callables by plain ones (same
    // table length keeps indices aligned)
    static constexpr AssignSmall small_t[] = {&assign_callable<IFS, (Ns <= SCap ? Ns : SCap), false>..., &assign_callable<IFS, (As <= SCap ? As : SCap), false>...};
    static constexpr AssignSmall small_n[] = {&assign_callable<IFS, (Ns <= SCap ? Ns : SCap), true>..., &assign_callable<IFS, (As <= SCap ? As : SCap), true>...};

    static auto run(OpsCase const& k, int stats) -> std::string
    {
        lt::reset();
        g_calls.clear();
        g_misaligned = false;
        std::string err;
        bool nt = false, seen_full_size = false, seen_tracked = false, seen_swap_nonempty = false, seen_convert = false, seen_call = false, seen_overaligned_swap = false;
        bool seen_overaligned_assign = false;
        {
            struct Sandwich {
                std::uint64_t pre{0xA5A5A5A5A5A5A5A5ULL};
                IF a;
                std::uint64_t mid{0x5A5A5A5A5A5A5A5AULL};
                IF b;
                std::uint64_t mid2{0x3C3C3C3C3C3C3C3CULL};
                IFS c;
                std::uint64_t post{0xC3C3C3C3C3C3C3C3ULL};
            } sw;
            WState sa, sb, sc;
            // NT bookkeeping: 0 = A, 1 = B, 2 = C
            int copy_src = -1, copy_dst = -1, move_dst = -1;
            bool copy_src_called = false, copy_dst_called = false;
            auto reassigned = [&](int w) {
                if (w == copy_src || w == copy_dst) { copy_src = copy_dst = -1; }
                if (w == move_dst) { move_dst = -1; }
            };
            auto called = [&](int w) {
                seen_call = true;
                if (w == copy_src) { copy_src_called = true; }
                if (w == copy_dst) { copy_dst_called = true; }
                if (copy_src >= 0 && copy_src_called && copy_dst_called) { nt = true; }
                if (w == move_dst) { nt = true; }
            };

            for (auto const& op : k.ops) {
                bool tb    = (op.c & 1U) != 0;
                bool trk   = (op.c & 2U) != 0;
                IF& x      = tb ? sw.b : sw.a;
                IF& y      = tb ? sw.a : sw.b;
                WState& mx = tb ? sb : sa;
                WState& my = tb ? sa : sb;
                int ix     = tb ? 1 : 0;
                int iy     = tb ? 0 : 1;
                auto st    = static_cast<unsigned char>(op.b);
                auto szi   = static_cast<std::size_t>((op.a >> 2) % nsizes);
                if ((op.a & 3U) == 3U) { szi = nsizes - 1; } // bias: exactly Cap
                int arg   = static_cast<int>(op.b % 1000);
                auto code = op.code % NRAW;
                if (code >= NCODES) { code = code < NCODES + 3 ? CALL : (code < NCODES + 5 ? CALL_CONST : SMALL_CALL); }
                auto calls_before = g_calls.size();

                // ---- re-map ops that would read an unspecified (moved-from) wrapper or call an empty one
                bool reads_x = code == COPY_ASSIGN || code == MOVE_ASSIGN || code == COPY_CTOR || code == MOVE_CTOR || code == SWAP_MEMBER || code == SWAP_FREE || code == CALL || code == CALL_CONST || code == SELF_SWAP
                            || code == SELF_COPY_ASSIGN;
                bool reads_y = code == SWAP_MEMBER || code == SWAP_FREE;
                bool reads_c = code == CONVERT_COPY || code == CONVERT_MOVE || code == SMALL_CALL;
                if (reads_x && mx.unspec) {
                    code = (op.a & 1U) != 0 ? ASSIGN_NULLPTR : ASSIGN_RVALUE;
                } else if (reads_y && my.unspec) {
                    // assign to y instead (swap the roles by hand)
                    y         = nullptr;
                    my.m      = nullptr;
                    my.unspec = false;
                    reassigned(iy);
                } else if (reads_c && sc.unspec) {
                    code = (op.a & 1U) != 0 ? SMALL_NULLPTR : SMALL_ASSIGN;
                }
                if ((code == CALL || code == CALL_CONST) && !mx.m) { code = ASSIGN_RVALUE; }
                if (code == SMALL_CALL && !sc.m) { code = SMALL_ASSIGN; }
                if (stats > 1) { vf::count((std::string("op.") + code_names[code]).c_str()); }

                switch (code) {
                case ASSIGN_RVALUE:
                case ASSIGN_LVALUE:
                case ASSIGN_VIA_TEMP: {
                    (trk ? big_n : big_t)[szi](x, st, code == ASSIGN_RVALUE ? 0 : (code == ASSIGN_LVALUE ? 1 : 2));
                    mx.m      = MFn{st};
                    mx.unspec = false;
                    reassigned(ix);
                    seen_full_size |= sizes[szi] == Cap;
                    seen_overaligned_assign |= szi >= nplain;
                    seen_tracked |= trk;
                    break;
                }
                case COPY_ASSIGN: {
                    y         = x;
                    my.m      = mx.m;
                    my.unspec = false;
                    reassigned(iy);
                    if (mx.m) {
                        copy_src        = ix;
                        copy_dst        = iy;
                        copy_src_called = copy_dst_called = false;
                    }
                    break;
                }
                case MOVE_ASSIGN: {
                    y         = std::move(x);
                    my.m      = mx.m;
                    my.unspec = false;
                    mx.unspec = true;
                    reassigned(iy);
                    reassigned(ix);
                    if (my.m) { move_dst = iy; }
                    break;
                }
                case COPY_CTOR: {
                    IF t{x};
                    Model mt = mx.m;
                    err      = emptiness("copy-constructed", t, mt);
                    if (err.empty() && mt) {
                        // independence of copies: call the copy twice, then the source — each follows its own model
                        err = do_call("copy", t, mt, arg, false);
                        if (err.empty()) { err = do_call("copy (second call)", t, mt, arg + 1, true); }
                        if (err.empty()) { err = do_call("source after its copy was called", x, mx.m, arg, false); }
                        called(ix);
                        nt = true; // both source and copy called after the copy
                    }
                    y         = std::move(t);
                    my.m      = mt;
                    my.unspec = false;
                    reassigned(iy);
                    if (my.m) { move_dst = iy; }
                    break;
                }
                case MOVE_CTOR: {
                    IF t{std::move(x)};
                    Model mt  = mx.m;
                    mx.unspec = true;
                    reassigned(ix);
                    err = emptiness("move-constructed", t, mt);
                    if (err.empty() && mt && (op.a & 2U) != 0) {
                        err = do_call("move-constructed", t, mt, arg, false);
                        nt  = true; // target called after a move
                    }
                    if ((op.a & 1U) != 0) {
                        x         = std::move(t); // the moved-from wrapper accepts a fresh assignment
                        mx.m      = mt;
                        mx.unspec = false;
                        if (mx.m) { move_dst = ix; }
                    } else {
                        y         = std::move(t);
                        my.m      = mt;
                        my.unspec = false;
                        reassigned(iy);
                        if (my.m) { move_dst = iy; }
                    }
                    break;
                }
                case ASSIGN_NULLPTR: {
                    x         = nullptr;
                    mx.m      = nullptr;
                    mx.unspec = false;
                    reassigned(ix);
                    break;
                }
                case SWAP_MEMBER:
                case SWAP_FREE: {
                    swap_shifted(x, y, op.b, code == SWAP_FREE);
                    mx.m.swap(my.m);
                    seen_overaligned_swap |= seen_overaligned_assign && (mx.m || my.m);
                    seen_swap_nonempty |= (mx.m || my.m);
                    // the NT bookkeeping follows the targets
                    auto sw_idx = [&](int& w) {
                        if (w == ix) {
                            w = iy;
                        } else if (w == iy) {
                            w = ix;
                        }
                    };
                    sw_idx(copy_src);
                    sw_idx(copy_dst);
                    sw_idx(move_dst);
                    break;
                }
                case CALL:
                case CALL_CONST: {
                    err = do_call(tb ? "B" : "A", x, mx.m, arg, code == CALL_CONST);
                    called(ix);
                    break;
                }
                case SELF_SWAP: {
                    IF& alias = x;
                    x.swap(alias);
                    break;
                }
                case SELF_COPY_ASSIGN: {
                    IF& alias = x;
                    x         = alias;
                    break;
                }
                case SMALL_ASSIGN: {
                    (trk ? small_n : small_t)[szi](sw.c, st, static_cast<int>(op.a % 3));
                    sc.m      = MFn{st};
                    sc.unspec = false;
                    reassigned(2);
                    seen_tracked |= trk;
                    break;
                }
                case CONVERT_COPY: {
                    switch (op.a % 3) {
                    case 0: x = IF(sw.c); break;
                    case 1: {
                        IF t{sw.c};
                        x = std::move(t);
                        break;
                    }
                    default: x = sw.c; break;
                    }
                    mx.m      = sc.m;
                    mx.unspec = false;
                    reassigned(ix);
                    if (sc.m) {
                        copy_src        = 2;
                        copy_dst        = ix;
                        copy_src_called = copy_dst_called = false;
                        seen_convert    = true;
                    }
                    break;
                }
                case CONVERT_MOVE: {
                    if ((op.a & 1U) != 0) {
                        x = IF(std::move(sw.c));
                    } else {
                        IF t{std::move(sw.c)};
                        x = std::move(t);
                    }
                    mx.m      = sc.m;
                    mx.unspec = false;
                    sc.unspec = true;
                    reassigned(ix);
                    reassigned(2);
                    if (mx.m) {
                        move_dst     = ix;
                        seen_convert = true;
                    }
                    break;
                }
                case CTOR_EMPTY: {
                    IF t;
                    IF u{nullptr};
                    err = emptiness("default-constructed", t, Model{});
                    if (err.empty()) { err = emptiness("constructed from nullptr", u, Model{}); }
                    if ((op.a & 1U) != 0) {
                        y = t;
                    } else {
                        y = std::move(u);
                    }
                    my.m      = nullptr;
                    my.unspec = false;
                    reassigned(iy);
                    break;
                }
                case SMALL_NULLPTR: {
                    sw.c      = nullptr;
                    sc.m      = nullptr;
                    sc.unspec = false;
                    reassigned(2);
                    break;
                }
                case SMALL_CALL: {
                    err = do_call("C", sw.c, sc.m, arg, (op.a & 1U) != 0);
                    called(2);
                    break;
                }
                default: break;
                }

                bool is_call_op = code == CALL || code == CALL_CONST || code == SMALL_CALL || code == COPY_CTOR || code == MOVE_CTOR;
                if (err.empty() && !is_call_op && g_calls.size() != calls_before) { err = "an operation that is not a call entered a target " + std::to_string(g_calls.size() - calls_before) + " time(s)"; }
                if (err.empty() && !sa.unspec) { err = emptiness("A", sw.a, sa.m); }
                if (err.empty() && !sb.unspec) { err = emptiness("B", sw.b, sb.m); }
                if (err.empty() && !sc.unspec) { err = emptiness("C", sw.c, sc.m); }
                if (err.empty() && (sw.pre != 0xA5A5A5A5A5A5A5A5ULL || sw.mid != 0x5A5A5A5A5A5A5A5AULL || sw.mid2 != 0x3C3C3C3C3C3C3C3CULL || sw.post != 0xC3C3C3C3C3C3C3C3ULL)) { err = "canary next to a wrapper was overwritten"; }
                if (err.empty() && !lt::violation().empty()) { err = "lifetime: " + lt::violation(); }
                if (err.empty() && g_misaligned) { err = "a callable declared alignas(" + std::to_string(align_or_1) + ") was constructed or invoked at a misaligned address"; }
                if (!err.empty()) {
                    err = std::string("after ") + code_names[code] + ": " + err;
                    break;
                }
            }
            // final observation: every specified non-empty wrapper still calls an equivalent target
            if (err.empty() && !sa.unspec && sa.m) { err = do_call("final call of A", sw.a, sa.m, 7, false); }
            if (err.empty() && !sb.unspec && sb.m) { err = do_call("final call of B", sw.b, sb.m, 7, true); }
            if (err.empty() && !sc.unspec && sc.m) { err = do_call("final call of C", sw.c, sc.m, 7, false); }
            if (err.empty() && g_misaligned) { err = "a callable declared alignas(" + std::to_string(align_or_1) + ") was constructed or invoked at a misaligned address"; }
            if (err.empty() && !lt::violation().empty()) { err = "lifetime: " + lt::violation(); }
        }
        if (err.empty()) { err = lt::check_empty(); }
        if (stats > 1) {
            vf::label("ipf.hist.called_source_and_target_after_copy_or_target_after_move", nt);
            vf::label("ipf.hist.callable_of_size_Cap", seen_full_size);
            vf::label("ipf.hist.non_trivially_copyable_callable", seen_tracked);
            vf::label("ipf.hist.swap_with_a_target", seen_swap_nonempty);
            vf::label("ipf.hist.converting_copy_or_move_of_a_target", seen_convert);
            vf::label("ipf.hist.some_call", seen_call);
            if (Align != 0) { vf::label("ipf.hist.swap_of_a_target_after_an_overaligned_assign", seen_overaligned_swap); }
        }
        if (stats > 0 && nt) { vf::nontrivial(vf::digest(k)); }
        return err;
    }
};

template <std::size_t... I>
constexpr auto upto(std::index_sequence<I...> /*i*/) -> Sizes<(I + 1)...>
{
    return {};
}
template <std::size_t N>
using AllSizes = decltype(upto(std::make_index_sequence<N>{}));

struct Config {
    char const* name;
    std::string (*run)(OpsCase const&, int);
};
Config const configs[] = {
    {"inplace_function<int(int),1> (+small 1)", &Cfg<1, 1, AllSizes<1>>::run},
    {"inplace_function<int(int),8> (+small 4)", &Cfg<8, 4, AllSizes<8>>::run},
    {"inplace_function<int(int),16> (+small 8)", &Cfg<16, 8, AllSizes<16>>::run},
    {"inplace_function<int(int),32> (+small 16)", &Cfg<32, 16, Sizes<1, 2, 3, 4, 7, 8, 9, 15, 16, 17, 24, 31, 32>>::run},
    {"inplace_function<int(int),64> (+small 8)", &Cfg<64, 8, Sizes<1, 5, 8, 13, 21, 33, 34, 55, 63, 64>>::run},
    // explicit over-alignment (template parameter Alignment): alignas(32) / alignas(64) / alignas(128) targets
    {"inplace_function<int(int),64,32> (+small 16)", &Cfg<64, 16, Sizes<1, 16, 40>, 32, Sizes<1, 32, 33, 64>>::run},
    {"inplace_function<int(int),128,64> (+small 16)", &Cfg<128, 16, Sizes<1, 24>, 64, Sizes<1, 64, 65, 128>>::run},
    {"inplace_function<int(int),128,128> (+small 16)", &Cfg<128, 16, Sizes<8>, 128, Sizes<1, 100, 128>>::run},
};
constexpr std::uint32_t first_overaligned_config = 5;
constexpr std::uint32_t nconfigs = sizeof(configs) / sizeof(configs[0]);

auto run_case(OpsCase const& k, int stats) -> std::string
{
    auto const& cfg = configs[k.cfg % nconfigs];
    auto d          = cfg.run(k, stats);
    return d.empty() ? d : std::string(cfg.name) + ": " + d;
}

auto describe(OpsCase const& k) -> std::string
{
    std::string s = std::string(configs[k.cfg % nconfigs].name) + " :";
    for (auto const& o : k.ops) { s += " " + std::string(code_names[(o.code % NRAW) >= NCODES ? ((o.code % NRAW) < NCODES + 3 ? CALL : ((o.code % NRAW) < NCODES + 5 ? CALL_CONST : SMALL_CALL)) : (o.code % NRAW)]) + "[" + std::to_string(o.a) + "," + std::to_string(o.b) + "," + std::to_string(o.c) + "]"; }
    return s;
}

} // namespace

void vf_run(vf::Ctx& c)
{
    // E2: every history of depth 3 (thorough 4) over a concrete alphabet, Cap = 8 (sizes 1..8, small wrapper 4)
    {
        int depth = c.thorough() ? 4 : 3;
        std::vector<RawOp> alpha;
        for (std::uint32_t code = 0; code < NCODES; ++code) {
            // two argument shapes per op: (size Cap, tracked, target A) / (small size, trivial, target B)
            alpha.push_back(RawOp{code, 3, 17, 2});
            alpha.push_back(RawOp{code, 4, 200, 1});
        }
        vf::enum_histories(1, alpha, depth, [&](OpsCase const& k) {
            vf::Flight<OpsCase> fl("enum_histories", k);
            vf::eval("enum_histories");
            auto d = run_case(k, 1);
            if (!d.empty()) { vf::mismatch("enum_histories", k, d); }
        });
    }
    // E2 for the over-aligned configurations: every history of depth 3 over a smaller alphabet (assign an over-aligned /
    // a plain callable, copy, move, nullptr, swaps with four stack shifts, self swap, calls)
    {
        std::vector<RawOp> alpha;
        for (std::uint32_t code : {ASSIGN_RVALUE, ASSIGN_LVALUE, COPY_ASSIGN, MOVE_ASSIGN, COPY_CTOR, MOVE_CTOR, ASSIGN_NULLPTR, CALL, SELF_SWAP}) {
            alpha.push_back(RawOp{code, 3, 17, 2}); // largest over-aligned size, tracked, target A
            alpha.push_back(RawOp{code, 0, 200, 1}); // plain size, trivial, target B
        }
        for (std::uint32_t code : {SWAP_MEMBER, SWAP_FREE}) {
            for (std::uint32_t shift = 0; shift < 4; ++shift) { alpha.push_back(RawOp{code, 0, shift, shift & 1U}); }
        }
        for (std::uint32_t ci = first_overaligned_config; ci < nconfigs; ++ci) {
            vf::enum_histories(ci, alpha, 3, [&](OpsCase const& k) {
                vf::Flight<OpsCase> fl("enum_histories", k);
                vf::eval("enum_histories");
                auto d = run_case(k, 1);
                if (!d.empty()) { vf::mismatch("enum_histories", k, d); }
            });
        }
    }
    // E1: random histories, every configuration
    int per_cfg = c.thorough() ? 12000 : 1500;
    for (std::uint32_t ci = 0; ci < nconfigs; ++ci) {
        auto gen = rc::gen::map(vf::gen_history(1, NRAW, 30), [ci](OpsCase k) {
            k.cfg = ci;
            return k;
        });
        std::string sub = std::string("histories/") + configs[ci].name;
        vf::rc_check<OpsCase>(sub.c_str(), gen, per_cfg, 100, [&](OpsCase const& k) {
            vf::eval("histories");
            auto d = run_case(k, 2);
            if (k.ops.size() >= 6) { vf::sample("histories", [&] { return describe(k); }); }
            return d;
        });
    }
}

std::string vf_replay(std::string const& /*sub*/, std::string const& cs)
{
    auto k = vf::parse_ops(cs);
    vf::Flight<OpsCase> fl("replay", k);
    std::fprintf(stderr, "replaying: %s\n", describe(k).c_str());
    return run_case(k, 0);
}
