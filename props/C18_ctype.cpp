// C18 (character classes, div, abs) — etl's cctype / cwctype functions and div/ldiv/lldiv/imaxdiv/abs/labs/llabs behave
// like glibc in the "C" locale.
//
// Engine E2: complete enumeration.  cctype: all 14 functions x every argument in [-1, 255] (EOF and every unsigned char
// value: exactly the arguments C defines).  cwctype: all 14 functions x [0, 0xFFFF] u {WEOF} (thorough: every code point
// up to 0x10FFFF).  Classification functions are compared by truth value (zero / non-zero), conversions by value.
// div family: quotient and remainder on a boundary grid x seeded random values, excluding y == 0 and MIN / -1 (undefined
// in C); abs family on the same grid excluding MIN (undefined in C).
#include <etl/cctype.hpp>
#include <etl/cstdlib.hpp>
#include <etl/cwctype.hpp>

#include <cctype>
#include <cinttypes>
#include <climits>
#include <clocale>
#include <cstdlib>
#include <limits>
#include <cwctype>

#include "verif.hpp"

namespace {

struct Case {
    char const* fn;
    long long a, b;
};
auto show_case(Case const& k) -> std::string { return std::string(k.fn) + " " + std::to_string(k.a) + " " + std::to_string(k.b); }

#define CLASSIFY(X) X(isalnum) X(isalpha) X(isblank) X(iscntrl) X(isdigit) X(isgraph) X(islower) X(isprint) X(ispunct) X(isspace) X(isupper) X(isxdigit)
#define WCLASSIFY(X) X(iswalnum) X(iswalpha) X(iswblank) X(iswcntrl) X(iswdigit) X(iswgraph) X(iswlower) X(iswprint) X(iswpunct) X(iswspace) X(iswupper) X(iswxdigit)

std::uint64_t g_evals_ctype = 0, g_evals_wctype = 0, g_evals_div = 0, g_nt = 0;
std::uint64_t g_cls[4] = {0, 0, 0, 0}; // ctype arg >= 0x80, ctype EOF, div negative operand, div boundary operand

// one narrow classification / conversion call; returns "" or the detail
auto narrow_call(std::string const& fn, int c) -> std::string
{
#define X(F)                                                                                                           \
    if (fn == #F) {                                                                                                    \
        bool const e = etl::F(c) != 0;                                                                                 \
        bool const s = std::F(c) != 0;                                                                                 \
        if (e != s) { return std::string(#F "(") + std::to_string(c) + "): etl " + (e ? "non-zero" : "zero") + " libc " + (s ? "non-zero" : "zero"); } \
        return {};                                                                                                     \
    }
    CLASSIFY(X)
#undef X
    if (fn == "tolower" || fn == "toupper") {
        int const e = fn == "tolower" ? etl::tolower(c) : etl::toupper(c);
        int const s = fn == "tolower" ? std::tolower(c) : std::toupper(c);
        if (e != s) { return fn + "(" + std::to_string(c) + "): etl " + std::to_string(e) + " libc " + std::to_string(s); }
        return {};
    }
    return "harness: unknown function";
}
auto wide_call(std::string const& fn, std::wint_t c) -> std::string
{
#define X(F)                                                                                                           \
    if (fn == #F) {                                                                                                    \
        bool const e = etl::F(c) != 0;                                                                                 \
        bool const s = std::F(c) != 0;                                                                                 \
        if (e != s) { return std::string(#F "(") + std::to_string(c) + "): etl " + (e ? "non-zero" : "zero") + " libc " + (s ? "non-zero" : "zero"); } \
        return {};                                                                                                     \
    }
    WCLASSIFY(X)
#undef X
    if (fn == "towlower" || fn == "towupper") {
        auto const e = fn == "towlower" ? etl::towlower(c) : etl::towupper(c);
        auto const s = fn == "towlower" ? std::towlower(c) : std::towupper(c);
        if (e != s) { return fn + "(" + std::to_string(c) + "): etl " + std::to_string(e) + " libc " + std::to_string(s); }
        return {};
    }
    return "harness: unknown function";
}

template <typename T>
auto q_r(char const* what, T x, T y, T eq, T er, T sq, T sr) -> std::string
{
    if (eq == sq && er == sr) { return {}; }
    return std::string(what) + "(" + std::to_string(x) + ", " + std::to_string(y) + "): etl {quot " + std::to_string(eq) + ", rem " + std::to_string(er) + "} libc {quot " + std::to_string(sq) + ", rem " + std::to_string(sr) + "}";
}
template <typename T>
auto valid_div(long long x, long long y) -> bool
{
    if (x < static_cast<long long>(std::numeric_limits<T>::min()) || x > static_cast<long long>(std::numeric_limits<T>::max())) { return false; }
    if (y < static_cast<long long>(std::numeric_limits<T>::min()) || y > static_cast<long long>(std::numeric_limits<T>::max())) { return false; }
    return y != 0 && !(x == static_cast<long long>(std::numeric_limits<T>::min()) && y == -1);
}
auto div_call(std::string const& fn, long long x, long long y) -> std::string
{
    if (fn == "div_int") {
        if (!valid_div<int>(x, y)) { return "harness: arguments outside C's domain"; }
        auto const e = etl::div(static_cast<int>(x), static_cast<int>(y));
        auto const s = std::div(static_cast<int>(x), static_cast<int>(y));
        return q_r<int>("div", static_cast<int>(x), static_cast<int>(y), e.quot, e.rem, s.quot, s.rem);
    }
    if (fn == "div_long" || fn == "ldiv") {
        if (!valid_div<long>(x, y)) { return "harness: arguments outside C's domain"; }
        auto const e = fn == "ldiv" ? etl::ldiv(static_cast<long>(x), static_cast<long>(y)) : etl::div(static_cast<long>(x), static_cast<long>(y));
        auto const s = std::ldiv(static_cast<long>(x), static_cast<long>(y));
        return q_r<long>(fn == "ldiv" ? "ldiv" : "div(long)", static_cast<long>(x), static_cast<long>(y), e.quot, e.rem, s.quot, s.rem);
    }
    if (fn == "div_llong" || fn == "lldiv") {
        if (!valid_div<long long>(x, y)) { return "harness: arguments outside C's domain"; }
        auto const e = fn == "lldiv" ? etl::lldiv(x, y) : etl::div(x, y);
        auto const s = std::lldiv(x, y);
        return q_r<long long>(fn == "lldiv" ? "lldiv" : "div(long long)", x, y, e.quot, e.rem, s.quot, s.rem);
    }
    if (fn == "imaxdiv") {
        if (!valid_div<std::intmax_t>(x, y)) { return "harness: arguments outside C's domain"; }
        auto const e = etl::imaxdiv(static_cast<etl::intmax_t>(x), static_cast<etl::intmax_t>(y));
        auto const s = std::imaxdiv(static_cast<std::intmax_t>(x), static_cast<std::intmax_t>(y));
        return q_r<long long>("imaxdiv", x, y, static_cast<long long>(e.quot), static_cast<long long>(e.rem), static_cast<long long>(s.quot), static_cast<long long>(s.rem));
    }
    if (fn == "abs_int") {
        if (x <= INT_MIN || x > INT_MAX) { return "harness: arguments outside C's domain"; }
        auto const e = etl::abs(static_cast<int>(x));
        auto const s = std::abs(static_cast<int>(x));
        return e == s ? std::string{} : "abs(" + std::to_string(x) + "): etl " + std::to_string(e) + " libc " + std::to_string(s);
    }
    if (fn == "labs" || fn == "abs_long") {
        if (x <= LONG_MIN) { return "harness: arguments outside C's domain"; }
        auto const e = fn == "labs" ? etl::labs(static_cast<long>(x)) : etl::abs(static_cast<long>(x));
        auto const s = std::labs(static_cast<long>(x));
        return e == s ? std::string{} : fn + "(" + std::to_string(x) + "): etl " + std::to_string(e) + " libc " + std::to_string(s);
    }
    if (fn == "llabs" || fn == "abs_llong") {
        if (x <= LLONG_MIN) { return "harness: arguments outside C's domain"; }
        auto const e = fn == "llabs" ? etl::llabs(x) : etl::abs(x);
        auto const s = std::llabs(x);
        return e == s ? std::string{} : fn + "(" + std::to_string(x) + "): etl " + std::to_string(e) + " libc " + std::to_string(s);
    }
    return "harness: unknown function";
}

char const* const narrow_fns[] = {
#define X(F) #F,
    CLASSIFY(X)
#undef X
        "tolower", "toupper"};
char const* const wide_fns[] = {
#define X(F) #F,
    WCLASSIFY(X)
#undef X
        "towlower", "towupper"};

template <typename T>
auto grid(vf::Rng& r) -> std::vector<long long>
{
    auto const mn = static_cast<long long>(std::numeric_limits<T>::min());
    auto const mx = static_cast<long long>(std::numeric_limits<T>::max());
    std::vector<long long> v{mn, mn + 1, mn + 2, mn / 2, mn / 2 - 1, mn / 3, -65536, -32768, -257, -256, -255, -100, -13, -10, -8, -7, -5, -4, -3, -2, -1, 0, 1, 2, 3, 4, 5, 7, 8, 10, 13, 100, 255, 256, 257, 32767, 65536, mx / 3, mx / 2, mx / 2 + 1,
        mx - 2, mx - 1, mx};
    for (int i = 0; i < 40; ++i) {
        auto const bits = 1 + r.below(sizeof(T) * 8 - 1);
        auto const mag  = static_cast<long long>(r.next() & ((1ULL << bits) - 1ULL));
        v.push_back(r.below(2) ? mag : -mag);
    }
    return v;
}

} // namespace

void vf_run(vf::Ctx& c)
{
    std::setlocale(LC_ALL, "C");
    std::uint64_t work = 0;
    // ---- cctype: [-1, 255]
    for (auto const* fn : narrow_fns) {
        if (!c.mine(work++)) { continue; }
        for (int ch = -1; ch <= 255; ++ch) {
            Case k{fn, ch, 0};
            vf::Flight<Case> fl("cctype", k);
            if (auto d = narrow_call(fn, ch); !d.empty()) {
                vf::mismatch("cctype", k, d);
                if (!c.memory_only) { return; }
            }
            ++g_evals_ctype;
            g_cls[0] += ch >= 0x80;
            g_cls[1] += ch == -1;
            if (ch >= 0x80 || ch == -1 || std::isalnum(ch) == 0) { ++g_nt; }
            if (ch == 'Z' || ch == 0xE9) { vf::sample("cctype", [&] { return show_case(k); }); }
        }
    }
    // ---- cwctype: [0, 0xFFFF] u {WEOF} (thorough: up to 0x10FFFF)
    std::uint32_t const wmax = c.thorough() ? 0x10FFFFU : 0xFFFFU;
    for (auto const* fn : wide_fns) {
        if (!c.mine(work++)) { continue; }
        Case k{fn, 0, 0};
        vf::Flight<Case> fl("cwctype", k);
        for (std::uint64_t i = 0; i <= static_cast<std::uint64_t>(wmax) + 1; ++i) {
            auto const ch = i == static_cast<std::uint64_t>(wmax) + 1 ? static_cast<std::wint_t>(WEOF) : static_cast<std::wint_t>(i);
            k.a           = static_cast<long long>(ch);
            if (auto d = wide_call(fn, ch); !d.empty()) {
                vf::mismatch("cwctype", k, d);
                if (!c.memory_only) { return; }
            }
            ++g_evals_wctype;
            if (ch >= 0x80 || std::iswalnum(ch) == 0) { ++g_nt; }
            if (ch == L'Z' || ch == 0xE9) { vf::sample("cwctype", [&] { return show_case(k); }); }
        }
    }
    // ---- div / abs families
    vf::Rng r{c.seed};
    auto sweep_div = [&](char const* fn, std::vector<long long> const& g, auto valid) {
        if (!c.mine(work++)) { return true; }
        auto const mnv = *std::min_element(g.begin(), g.end());
        auto const mxv = *std::max_element(g.begin(), g.end());
        for (auto x : g) {
            for (auto y : g) {
                if (!valid(x, y)) { continue; }
                Case k{fn, x, y};
                vf::Flight<Case> fl("div", k);
                if (auto d = div_call(fn, x, y); !d.empty()) {
                    vf::mismatch("div", k, d);
                    if (!c.memory_only) { return false; }
                }
                ++g_evals_div;
                g_cls[2] += x < 0 || y < 0;
                g_cls[3] += x == mnv || x == mxv || y == mnv || y == mxv;
                if (x < 0 || y < 0) { ++g_nt; }
                if (x == -7 && (y == 2 || y == -2)) { vf::sample("div", [&] { return show_case(k); }); }
            }
        }
        return true;
    };
    auto const gi = grid<int>(r);
    auto const gl = grid<long>(r);
    auto const gll = grid<long long>(r);
    bool ok = sweep_div("div_int", gi, valid_div<int>) && sweep_div("div_long", gl, valid_div<long>) && sweep_div("ldiv", gl, valid_div<long>) && sweep_div("div_llong", gll, valid_div<long long>) && sweep_div("lldiv", gll, valid_div<long long>)
           && sweep_div("imaxdiv", gll, valid_div<std::intmax_t>);
    auto sweep_abs = [&](char const* fn, std::vector<long long> const& g) {
        if (!ok || !c.mine(work++)) { return; }
        for (auto x : g) {
            if (x == g.front()) { continue; } // abs(MIN) is undefined
            Case k{fn, x, 0};
            vf::Flight<Case> fl("abs", k);
            if (auto d = div_call(fn, x, 0); !d.empty()) {
                vf::mismatch("abs", k, d);
                if (!c.memory_only) { return; }
            }
            ++g_evals_div;
            if (x < 0) { ++g_nt; }
        }
    };
    sweep_abs("abs_int", gi);
    sweep_abs("abs_long", gl);
    sweep_abs("labs", gl);
    sweep_abs("abs_llong", gll);
    sweep_abs("llabs", gll);

    if (g_evals_ctype) { vf::eval("cctype", g_evals_ctype); }
    if (g_evals_wctype) { vf::eval("cwctype", g_evals_wctype); }
    if (g_evals_div) { vf::eval("div_abs", g_evals_div); }
    vf::nontrivial_count(g_nt);
    auto add = [](char const* name, std::uint64_t hits, std::uint64_t of) {
        auto& cl = vf::stats().classes[name];
        cl.first += hits;
        cl.second += of;
    };
    add("cctype: argument >= 0x80", g_cls[0], g_evals_ctype);
    add("cctype: argument EOF", g_cls[1], g_evals_ctype);
    add("div: negative operand", g_cls[2], g_evals_div);
    add("div: MIN or MAX operand", g_cls[3], g_evals_div);
}

std::string vf_replay(std::string const& sub, std::string const& cs)
{
    (void)sub;
    std::setlocale(LC_ALL, "C");
    std::stringstream ss(cs);
    std::string fn;
    long long a = 0, b = 0;
    if (!(ss >> fn >> a >> b)) { return "harness: cannot parse case string"; }
    Case k{fn.c_str(), a, b};
    vf::Flight<Case> fl("replay", k);
    for (auto const* f : narrow_fns) {
        if (fn == f) {
            if (a < -1 || a > 255) { return "harness: argument outside C's domain"; }
            return narrow_call(fn, static_cast<int>(a));
        }
    }
    for (auto const* f : wide_fns) {
        if (fn == f) { return wide_call(fn, static_cast<std::wint_t>(a)); }
    }
    return div_call(fn, a, b);
}
