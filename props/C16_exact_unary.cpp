// C16 (part 1) — exact unary cmath functions against glibc libm, RUN-TIME path only.
//
//   floor ceil trunc round rint lrint llrint fabs abs (+ the f-suffixed spellings) and the classification
//   functions signbit isnan isinf isfinite must return bit-identical results to glibc for
//     * float : every bit pattern (thorough: all 2^32; quick: a ~2^24-2^26 stratified sweep, see quick_f32()),
//     * double: every exponent x boundary mantissas (+ tie mantissas) + seeded random patterns,
//     * the integral overloads (floor(int) ... isnan(int), abs(int/long/long long)) on boundary + random integers.
//   All NaNs are equal (sign / payload of a NaN result are not compared).  lrint/llrint only where the result fits.
//
//   Not present on this tree (therefore not part of the check): nearbyint, lround/llround, fpclassify, isnormal,
//   isunordered & co, long double is not claimed by the property.
//
//   Built with "fast": -O2 -fsanitize=undefined (no ASan).  Arguments are produced by run-time loops and the oracle
//   is called through volatile function pointers, so nothing can be folded at compile time.
#include <etl/cmath.hpp>

#include <math.h>
#include <stdlib.h>

#include "verif.hpp"

#include "C16_common.hpp"

namespace {
using namespace c16;

// ------------------------------------------------------------------ the oracle: glibc, reached through volatile pointers
float (*volatile o_floorf)(float)      = ::floorf;
float (*volatile o_ceilf)(float)       = ::ceilf;
float (*volatile o_truncf)(float)      = ::truncf;
float (*volatile o_roundf)(float)      = ::roundf;
float (*volatile o_rintf)(float)       = ::rintf;
float (*volatile o_fabsf)(float)       = ::fabsf;
long (*volatile o_lrintf)(float)       = ::lrintf;
long long (*volatile o_llrintf)(float) = ::llrintf;
double (*volatile o_floor)(double)     = ::floor;
double (*volatile o_ceil)(double)      = ::ceil;
double (*volatile o_trunc)(double)     = ::trunc;
double (*volatile o_round)(double)     = ::round;
double (*volatile o_rint)(double)      = ::rint;
double (*volatile o_fabs)(double)      = ::fabs;
long (*volatile o_lrint)(double)       = ::lrint;
long long (*volatile o_llrint)(double) = ::llrint;
int (*volatile o_isnanf)(float)        = ::__isnanf;
int (*volatile o_isinff)(float)        = ::__isinff;
int (*volatile o_finitef)(float)       = ::__finitef;
int (*volatile o_signbitf)(float)      = ::__signbitf;
int (*volatile o_isnan)(double)        = ::__isnan;
int (*volatile o_isinf)(double)        = ::__isinf;
int (*volatile o_finite)(double)       = ::__finite;
int (*volatile o_signbit)(double)      = ::__signbit;
int (*volatile o_abs)(int)             = ::abs;
long (*volatile o_labs)(long)          = ::labs;
long long (*volatile o_llabs)(long long) = ::llabs;

template <typename T>
struct Ora;
template <>
struct Ora<float> {
    static auto floor(float x) { return o_floorf(x); }
    static auto ceil(float x) { return o_ceilf(x); }
    static auto trunc(float x) { return o_truncf(x); }
    static auto round(float x) { return o_roundf(x); }
    static auto rint(float x) { return o_rintf(x); }
    static auto fabs(float x) { return o_fabsf(x); }
    static auto lrint(float x) { return o_lrintf(x); }
    static auto llrint(float x) { return o_llrintf(x); }
    static auto isnan(float x) { return o_isnanf(x) != 0; }
    static auto isinf(float x) { return o_isinff(x) != 0; }
    static auto isfinite(float x) { return o_finitef(x) != 0; }
    static auto signbit(float x) { return o_signbitf(x) != 0; }
};
template <>
struct Ora<double> {
    static auto floor(double x) { return o_floor(x); }
    static auto ceil(double x) { return o_ceil(x); }
    static auto trunc(double x) { return o_trunc(x); }
    static auto round(double x) { return o_round(x); }
    static auto rint(double x) { return o_rint(x); }
    static auto fabs(double x) { return o_fabs(x); }
    static auto lrint(double x) { return o_lrint(x); }
    static auto llrint(double x) { return o_llrint(x); }
    static auto isnan(double x) { return o_isnan(x) != 0; }
    static auto isinf(double x) { return o_isinf(x) != 0; }
    static auto isfinite(double x) { return o_finite(x) != 0; }
    static auto signbit(double x) { return o_signbit(x) != 0; }
};

template <typename T>
inline auto fits_long(T x) -> bool
{
    return x >= T(-0x1p63) && x < T(0x1p63); // false for NaN; rint() of such an x is again in range
}

// ------------------------------------------------------------------ the functions (one small function per entry so the sweep inlines nothing across entries)
#define C16_VAL(name, E, R)                                                                                             \
    template <typename T>                                                                                               \
    auto u_##name(T x, Out* o) -> int                                                                                   \
    {                                                                                                                   \
        return cmpf<T>(E, R, o);                                                                                        \
    }
#define C16_INT(name, PRE, E, R)                                                                                        \
    template <typename T>                                                                                               \
    auto u_##name(T x, Out* o) -> int                                                                                   \
    {                                                                                                                   \
        if (!(PRE)) { return 0; }                                                                                       \
        return cmpi(static_cast<long long>(E), static_cast<long long>(R), o);                                          \
    }

C16_VAL(floor, etl::floor(x), Ora<T>::floor(x))
C16_VAL(ceil, etl::ceil(x), Ora<T>::ceil(x))
C16_VAL(trunc, etl::trunc(x), Ora<T>::trunc(x))
C16_VAL(round, etl::round(x), Ora<T>::round(x))
C16_VAL(rint, etl::rint(x), Ora<T>::rint(x))
C16_VAL(fabs, etl::fabs(x), Ora<T>::fabs(x))
C16_VAL(abs, etl::abs(x), Ora<T>::fabs(x))
C16_INT(lrint, fits_long(x), etl::lrint(x), Ora<T>::lrint(x))
C16_INT(llrint, fits_long(x), etl::llrint(x), Ora<T>::llrint(x))
C16_INT(signbit, true, etl::signbit(x), Ora<T>::signbit(x))
C16_INT(isnan, true, etl::isnan(x), Ora<T>::isnan(x))
C16_INT(isinf, true, etl::isinf(x), Ora<T>::isinf(x))
C16_INT(isfinite, true, etl::isfinite(x), Ora<T>::isfinite(x))
// f-suffixed spellings exist for float only
auto u_floorf(float x, Out* o) -> int { return cmpf<float>(etl::floorf(x), o_floorf(x), o); }
auto u_ceilf(float x, Out* o) -> int { return cmpf<float>(etl::ceilf(x), o_ceilf(x), o); }
auto u_truncf(float x, Out* o) -> int { return cmpf<float>(etl::truncf(x), o_truncf(x), o); }
auto u_roundf(float x, Out* o) -> int { return cmpf<float>(etl::roundf(x), o_roundf(x), o); }
auto u_rintf(float x, Out* o) -> int { return cmpf<float>(etl::rintf(x), o_rintf(x), o); }
auto u_fabsf(float x, Out* o) -> int { return cmpf<float>(etl::fabsf(x), o_fabsf(x), o); }
auto u_lrintf(float x, Out* o) -> int
{
    if (!fits_long(x)) { return 0; }
    return cmpi(etl::lrintf(x), o_lrintf(x), o);
}
auto u_llrintf(float x, Out* o) -> int
{
    if (!fits_long(x)) { return 0; }
    return cmpi(etl::llrintf(x), o_llrintf(x), o);
}

// ------------------------------------------------------------------ known-finding classes (only consulted when the tag is passed with --exclude)
template <typename T>
auto cls_negzero(T x) -> bool
{
    return zero_b(x) && sign_b(x);
}
// run-time ceil is gcem::ceil on the pinned tree: wrong sign of zero for -1 < x < 0, returns x itself for 0 < |x| < epsilon,
// and casts to long long (undefined, garbage result) for |x| >= 2^63
template <typename T>
auto cls_ceil_gcem(T x) -> bool
{
    if (nan_b(x) || inf_b(x) || zero_b(x)) { return false; }
    return (x > T(-1) && x < T(0)) || (x > T(0) && x < std::numeric_limits<T>::epsilon()) || !(x > T(-0x1p63) && x < T(0x1p63));
}

template <typename T>
struct Entry {
    char const* name;
    int (*check)(T, Out*);
    char const* tag1{nullptr};
    bool (*cls1)(T){nullptr};
    bool act1{false};
};

template <typename T>
auto table() -> std::vector<Entry<T>>&
{
    static std::vector<Entry<T>> t = [] {
        std::vector<Entry<T>> v{
            {"floor", u_floor<T>},
            {"ceil", u_ceil<T>, "C16.ceil.gcem", cls_ceil_gcem<T>},
            {"trunc", u_trunc<T>},
            {"round", u_round<T>},
            {"rint", u_rint<T>},
            {"fabs", u_fabs<T>, "C16.fabs.negzero", cls_negzero<T>},
            {"abs", u_abs<T>, "C16.fabs.negzero", cls_negzero<T>},
            {"lrint", u_lrint<T>},
            {"llrint", u_llrint<T>},
            {"signbit", u_signbit<T>},
            {"isnan", u_isnan<T>},
            {"isinf", u_isinf<T>},
            {"isfinite", u_isfinite<T>},
        };
        if constexpr (sizeof(T) == 4) {
            v.push_back({"floorf", u_floorf});
            v.push_back({"ceilf", u_ceilf, "C16.ceil.gcem", cls_ceil_gcem<float>});
            v.push_back({"truncf", u_truncf});
            v.push_back({"roundf", u_roundf});
            v.push_back({"rintf", u_rintf});
            v.push_back({"fabsf", u_fabsf, "C16.fabs.negzero", cls_negzero<float>});
            v.push_back({"lrintf", u_lrintf});
            v.push_back({"llrintf", u_llrintf});
        }
        for (auto& e : v) {
            e.act1 = e.tag1 != nullptr && vf::ctx().excluded(e.tag1);
        }
        return v;
    }();
    return t;
}

template <typename T>
auto detail_of(char const* fn, T x, Out const& o) -> std::string
{
    return std::string(fn) + "(" + show_arg(x) + "): etl " + o.etl + ", libm " + o.ref;
}

// run every function over a buffer of bit patterns; `nt[i]` says whether pattern i is non-trivial by the C16 rule
template <typename T>
void run_buffer(std::vector<typename BitsOf<T>::type> const& pats, std::vector<unsigned char> const& nt)
{
    for (auto& e : table<T>()) {
        Case k{e.name, BitsOf<T>::name, 1, 0, 0, 0};
        vf::Flight<Case> fl(e.name, k);
        std::uint64_t n = 0, nnt = 0, ex1 = 0;
        for (std::size_t i = 0; i < pats.size(); ++i) {
            k.a       = pats[i];
            T const x = from_bits<T>(pats[i]);
            if (e.act1 && e.cls1(x)) { // known-finding class: not called at all
                ++ex1;
                continue;
            }
            int const r = e.check(x, nullptr);
            if (r == 0) { continue; }
            ++n;
            nnt += nt[i];
            if (r == 2) {
                Out o;
                e.check(x, &o);
                vf::mismatch(e.name, k, detail_of(e.name, x, o));
            }
        }
        vf::eval(e.name, n);
        vf::nontrivial_count(nnt);
        if (ex1 != 0) { vf::excluded_known(e.tag1, ex1); }
    }
}

void add_label(char const* name, std::uint64_t hits, std::uint64_t total)
{
    auto& c = vf::stats().classes[name];
    c.first += hits;
    c.second += total;
}

template <typename T>
struct Batch {
    using U = typename BitsOf<T>::type;
    std::vector<U> pats;
    std::vector<unsigned char> nt;
    std::uint64_t n_zero{0}, n_den{0}, n_big{0}, n_tie{0}, n_infnan{0}, n_pow2{0}, n_total{0}, n_nt{0};
    char const* prefix;
    explicit Batch(char const* p) : prefix{p}
    {
        pats.reserve(1U << 16);
        nt.reserve(1U << 16);
    }
    void push(U b)
    {
        T const x = from_bits<T>(b);
        bool const t = is_nt(x);
        pats.push_back(b);
        nt.push_back(t ? 1 : 0);
        ++n_total;
        n_nt += t;
        if (t) { // class histogram only needs the non-trivial ones
            constexpr int m     = BitsOf<T>::mant;
            unsigned const emax = sizeof(T) == 4 ? 0xFFU : 0x7FFU;
            unsigned const e    = static_cast<unsigned>((b >> m) & emax);
            U const mant        = b & ((static_cast<U>(1) << m) - 1);
            if (e == 0 && mant == 0) {
                ++n_zero;
            } else if (e == 0) {
                ++n_den;
            } else if (e == emax) {
                ++n_infnan;
            } else if (e >= (sizeof(T) == 4 ? 127U : 1023U) + static_cast<unsigned>(m)) {
                ++n_big;
            } else if (is_tie(x)) {
                ++n_tie;
            } else {
                ++n_pow2;
            }
        }
        if (t && (n_total & 0x3FFFFF) == 0x2AAAA) {
            vf::sample(sizeof(T) == 4 ? "floor" : "rint", [&] { return std::string("all unary functions on ") + BitsOf<T>::name + " " + show_arg(x); });
        }
        if (pats.size() >= (1U << 16)) { flush(); }
    }
    void flush()
    {
        if (pats.empty()) { return; }
        run_buffer<T>(pats, nt);
        pats.clear();
        nt.clear();
    }
    void finish()
    {
        flush();
        std::string p = prefix;
        // the fraction of non-trivial arguments is the health figure; the individual classes are small BY DEFINITION in a
        // sweep over bit patterns (there are only two zeros), so they are reported as absolute counts of patterns covered
        add_label((p + ".nontrivial argument").c_str(), n_nt, n_total);
        vf::count((p + ".patterns").c_str(), n_total);
        vf::count((p + ".patterns.zero").c_str(), n_zero);
        vf::count((p + ".patterns.denormal").c_str(), n_den);
        vf::count((p + ".patterns.inf_or_nan").c_str(), n_infnan);
        vf::count((p + ".patterns.no_fraction_bits").c_str(), n_big);
        vf::count((p + ".patterns.exact_tie").c_str(), n_tie);
        vf::count((p + ".patterns.within_64ulp_of_power_of_two").c_str(), n_pow2);
    }
};

// ------------------------------------------------------------------ float: thorough = all 2^32 patterns
void thorough_f32(vf::Ctx& c)
{
    Batch<float> b("f32");
    for (std::uint64_t blk = 0; blk < (1ULL << 16); ++blk) {
        if (!c.mine(blk)) { continue; }
        for (std::uint64_t i = 0; i < (1ULL << 16); ++i) { b.push(static_cast<u32>((blk << 16) | i)); }
    }
    b.finish();
    vf::count("f32.sweep.all_2^32_patterns");
}

// ------------------------------------------------------------------ float: quick = stratified sweep
//  A  every 256th pattern (2^24 patterns; the residue is chosen by the seed),
//  S  every pattern within +-64 of each power of two of both signs (this covers +-0, the denormal edges, +-inf and
//     the NaN range boundaries), of the quiet-NaN boundary, of the top of the NaN range, and of every tie n+.5, n < 4096,
//  C  every tie n+.5 up to 2^23 of both signs together with its two neighbours.
//  The three parts are enumerated without repetition (S skips members of A, C skips members of A and S).
auto near_tie1(u32 p) -> bool { return is_tie(u2f(p)) || is_tie(u2f(p - 1)) || is_tie(u2f(p + 1)); }

void quick_f32(vf::Ctx& c)
{
    u32 const off = static_cast<u32>(vf::Rng(c.seed / 1000).below(256));
    auto in_a     = [&](u32 p) { return (p & 255U) == off; };
    // S
    std::vector<u32> S;
    auto around = [&](u32 center) {
        for (int d = -64; d <= 64; ++d) { S.push_back(center + static_cast<u32>(d)); } // wraps modulo 2^32 on purpose
    };
    for (u32 s = 0; s < 2; ++s) {
        for (u32 e = 0; e < 256; ++e) { around((s << 31) | (e << 23)); }
        around((s << 31) | 0x7FC00000U);
        around((s << 31) | 0x7FFFFFFFU);
        for (u32 n = 0; n < 4096; ++n) { around(bits(static_cast<float>(n) + 0.5F) | (s << 31)); }
    }
    std::sort(S.begin(), S.end());
    S.erase(std::unique(S.begin(), S.end()), S.end());

    Batch<float> b("f32");
    // A
    for (std::uint64_t i = 0; i < (1ULL << 24); ++i) {
        if (!c.mine(i >> 12)) { continue; }
        b.push(static_cast<u32>(i * 256 + off));
    }
    // S \ A
    for (std::size_t i = 0; i < S.size(); ++i) {
        if (!c.mine(i >> 8) || in_a(S[i])) { continue; }
        b.push(S[i]);
    }
    // C \ (A u S): patterns in [0.5 - 1ulp, 2^23] of both signs
    std::uint64_t ties = 0;
    for (u32 s = 0; s < 2; ++s) {
        for (u32 blk = 0x3EFF0000U >> 12; blk <= (0x4B000000U >> 12); ++blk) {
            if (!c.mine(blk)) { continue; }
            for (u32 i = 0; i < 4096; ++i) {
                u32 const p = ((blk << 12) | i) | (s << 31);
                if (!near_tie1(p & 0x7FFFFFFFU)) { continue; }
                if (in_a(p) || std::binary_search(S.begin(), S.end(), p)) { continue; }
                b.push(p);
                ++ties;
            }
        }
    }
    b.finish();
    vf::count("f32.sweep.tie_neighbourhood_patterns", ties);
}

// ------------------------------------------------------------------ double: exponents x boundary mantissas, then random
void grid_f64(vf::Ctx& c)
{
    vf::Rng rng(c.seed ^ 0xD0B1EULL);
    Batch<double> b("f64");
    u64 const M = (1ULL << 52) - 1;
    for (u64 e = 0; e < 2048; ++e) {
        if (!c.mine(e)) { continue; }
        std::vector<u64> ms;
        for (u64 k = 0; k <= 4; ++k) {
            ms.push_back(k);
            ms.push_back(M - k);
        }
        ms.push_back(1ULL << 51);
        ms.push_back((1ULL << 51) + 1);
        ms.push_back((1ULL << 51) - 1);
        for (int k = 0; k < 52; ++k) {
            ms.push_back(1ULL << k);
            ms.push_back((1ULL << k) - 1);
            ms.push_back(M & ~((1ULL << k) - 1));
        }
        int const E = static_cast<int>(e) - 1023;
        if (E >= 0 && E < 52) { // ties n+.5 and their neighbours, with random integer parts
            int const fb = 52 - E;
            u64 const half = 1ULL << (fb - 1);
            for (int j = 0; j < 6; ++j) {
                u64 upper = fb >= 52 ? 0 : ((rng.next() << fb) & M);
                if (j == 0) { upper = 0; }
                if (j == 1) { upper = fb >= 52 ? 0 : ((M >> fb) << fb); }
                u64 const m = upper | half;
                ms.push_back(m);
                ms.push_back((m + 1) & M);
                ms.push_back((m - 1) & M);
                ms.push_back(upper); // the integer itself
                ms.push_back((upper - 1) & M);
            }
        }
        std::sort(ms.begin(), ms.end());
        ms.erase(std::unique(ms.begin(), ms.end()), ms.end());
        for (u64 s = 0; s < 2; ++s) {
            for (u64 m : ms) { b.push((s << 63) | (e << 52) | m); }
        }
    }
    b.finish();
}

void random_f64(vf::Ctx& c)
{
    vf::Rng rng(c.seed);
    std::uint64_t const total = c.thorough() ? 10000000ULL : 1000000ULL;
    std::uint64_t const n     = total / static_cast<unsigned>(c.nshards) + 1;
    Batch<double> b("f64.random");
    for (std::uint64_t i = 0; i < n; ++i) {
        u64 const r = rng.next();
        u64 p       = 0;
        switch (i & 3U) {
        case 0:
        case 1: p = r; break; // uniform over bit patterns (= uniform over exponents)
        case 2: {             // integers / ties / their neighbours below 2^53
            int const bl  = static_cast<int>(rng.below(54));
            double v      = static_cast<double>(bl == 0 ? 0 : (rng.next() >> (64 - bl)));
            auto const k  = rng.below(6);
            if (k == 0) { v += 0.5; }
            if (k == 1) { v -= 0.5; }
            p = bits(v);
            if (k == 2) { p += 1; }
            if (k == 3 && p != 0) { p -= 1; }
            if (rng.below(2) != 0) { p |= 1ULL << 63; }
            break;
        }
        default: { // magnitudes around the long / long long boundary and around 1
            u64 const e = 1023 - 2 + rng.below(70);
            p           = ((r & 1) << 63) | (e << 52) | (rng.next() >> 12);
            if (rng.below(4) == 0) { p &= ~((1ULL << rng.below(52)) - 1); } // trailing zeros
            break;
        }
        }
        b.push(p);
    }
    b.finish();
}

// ------------------------------------------------------------------ integral overloads
template <typename I>
struct IName;
template <>
struct IName<int> {
    static constexpr char const* v = "i32";
};
template <>
struct IName<unsigned> {
    static constexpr char const* v = "u32";
};
template <>
struct IName<long long> {
    static constexpr char const* v = "i64";
};
template <>
struct IName<unsigned long long> {
    static constexpr char const* v = "u64";
};
template <>
struct IName<long> {
    static constexpr char const* v = "l64";
};

template <typename I>
auto int_fits_long(I v) -> bool
{
    double const d = static_cast<double>(v);
    return d >= -0x1p63 && d < 0x1p63;
}

// one integral case; which: index into the list below.  Returns "" or the detail.
char const* const k_int_fns[] = {"floor", "ceil", "trunc", "round", "rint", "lrint", "llrint", "isinf", "isnan", "abs"};
template <typename I>
auto int_case(int which, I v, bool count) -> std::string
{
    Case k{k_int_fns[which], IName<I>::v, 1, static_cast<u64>(v), 0, 0};
    vf::Flight<Case> fl(k.fn, k);
    Out o;
    int r          = 0;
    double const d = static_cast<double>(v);
    switch (which) {
    case 0: r = cmpf<double>(etl::floor(v), o_floor(d), &o); break;
    case 1:
        if (count && vf::ctx().excluded("C16.ceil.gcem") && cls_ceil_gcem(d)) {
            vf::excluded_known("C16.ceil.gcem");
            return "";
        }
        r = cmpf<double>(etl::ceil(v), o_ceil(d), &o);
        break;
    case 2: r = cmpf<double>(etl::trunc(v), o_trunc(d), &o); break;
    case 3: r = cmpf<double>(etl::round(v), o_round(d), &o); break;
    case 4: r = cmpf<double>(etl::rint(v), o_rint(d), &o); break;
    case 5: r = int_fits_long(v) ? cmpi(etl::lrint(v), o_lrint(d), &o) : 0; break;
    case 6: r = int_fits_long(v) ? cmpi(etl::llrint(v), o_llrint(d), &o) : 0; break;
    case 7: r = cmpi(etl::isinf(v), o_isinf(d) != 0, &o); break;
    case 8: r = cmpi(etl::isnan(v), o_isnan(d) != 0, &o); break;
    default:
        // integer abs exists for int, long, long long; precondition: the result is representable
        if constexpr (std::is_same_v<I, int>) {
            r = v == std::numeric_limits<int>::min() ? 0 : cmpi(etl::abs(v), o_abs(v), &o);
        } else if constexpr (std::is_same_v<I, long>) {
            r = v == std::numeric_limits<long>::min() ? 0 : cmpi(etl::abs(v), o_labs(v), &o);
        } else if constexpr (std::is_same_v<I, long long>) {
            r = v == std::numeric_limits<long long>::min() ? 0 : cmpi(etl::abs(v), o_llabs(v), &o);
        }
        break;
    }
    if (r == 0) { return ""; }
    if (count) {
        vf::eval("integral_overloads");
        bool const nt = v == 0 || v == std::numeric_limits<I>::min() || v == std::numeric_limits<I>::max() || static_cast<double>(v) >= 0x1p53
                     || static_cast<double>(v) <= -0x1p53;
        if (nt) { vf::nontrivial_count(); }
        vf::label("int.nontrivial (0, min, max, |v| >= 2^53)", nt);
    }
    if (r == 2) {
        std::string const d2 = std::string(k.fn) + "(" + IName<I>::v + " " + std::to_string(v) + "): etl " + o.etl + ", libm on double(v) " + o.ref;
        if (count) { vf::mismatch("integral_overloads", k, d2); }
        return d2;
    }
    return "";
}

template <typename I>
void ints_of(vf::Ctx& c, vf::Rng& rng)
{
    std::vector<I> vs;
    using L = std::numeric_limits<I>;
    for (int k = 0; k <= 66; ++k) {
        vs.push_back(static_cast<I>(L::min() + static_cast<I>(k)));
        vs.push_back(static_cast<I>(L::max() - static_cast<I>(k)));
        vs.push_back(static_cast<I>(k));
        if constexpr (L::is_signed) { vs.push_back(static_cast<I>(-k)); }
    }
    for (int sh = 1; sh < L::digits; ++sh) {
        for (int d = -2; d <= 2; ++d) {
            I const p = static_cast<I>(static_cast<I>(1) << sh);
            vs.push_back(static_cast<I>(p + static_cast<I>(d)));
            if constexpr (L::is_signed) { vs.push_back(static_cast<I>(-(p + static_cast<I>(d)))); }
        }
    }
    int const nr = c.thorough() ? 20000 : 2000;
    for (int i = 0; i < nr; ++i) {
        int const bl = static_cast<int>(rng.below(sizeof(I) * 8)) + 1;
        vs.push_back(static_cast<I>(rng.next() >> (64 - bl)));
        if constexpr (L::is_signed) { vs.push_back(static_cast<I>(rng.next())); }
    }
    for (std::size_t i = 0; i < vs.size(); ++i) {
        if (!c.mine(i)) { continue; }
        for (int w = 0; w < 10; ++w) { int_case<I>(w, vs[i], true); }
    }
}

void ints(vf::Ctx& c)
{
    vf::Rng rng(c.seed ^ 0x1471ULL);
    ints_of<int>(c, rng);
    ints_of<unsigned>(c, rng);
    ints_of<long>(c, rng);
    ints_of<long long>(c, rng);
    ints_of<unsigned long long>(c, rng);
}

} // namespace

void vf_run(vf::Ctx& c)
{
    if (c.thorough()) {
        thorough_f32(c);
    } else {
        quick_f32(c);
    }
    grid_f64(c);
    random_f64(c);
    ints(c);
    vf::sample("floor", [] { return std::string("floor f32 0xcb000001  (every listed function is called on every pattern of the sweep)"); });
}

std::string vf_replay(std::string const& /*sub*/, std::string const& cs)
{
    auto const p = parse_case(cs);
    auto one     = [&](auto tag) -> std::string {
        using T = decltype(tag);
        for (auto& e : table<T>()) {
            if (p.fn == e.name) {
                T const x = from_bits<T>(p.a);
                Case k{e.name, BitsOf<T>::name, 1, p.a, 0, 0};
                vf::Flight<Case> fl(e.name, k);
                Out o;
                int const r = e.check(x, &o);
                return r == 2 ? detail_of(e.name, x, o) : std::string();
            }
        }
        return "replay: unknown function " + p.fn;
    };
    if (p.ty == "f32") { return one(float{}); }
    if (p.ty == "f64") { return one(double{}); }
    int which = -1;
    for (int i = 0; i < 10; ++i) {
        if (p.fn == k_int_fns[i]) { which = i; }
    }
    if (which < 0) { return "replay: unknown function " + p.fn; }
    if (p.ty == "i32") { return int_case<int>(which, static_cast<int>(p.a), false); }
    if (p.ty == "u32") { return int_case<unsigned>(which, static_cast<unsigned>(p.a), false); }
    if (p.ty == "l64") { return int_case<long>(which, static_cast<long>(p.a), false); }
    if (p.ty == "i64") { return int_case<long long>(which, static_cast<long long>(p.a), false); }
    if (p.ty == "u64") { return int_case<unsigned long long>(which, static_cast<unsigned long long>(p.a), false); }
    return "replay: unknown type " + p.ty;
}
